package main

import (
	"fmt"
	"regexp"
	"strings"
	"sync"
)

func init() { commands["C14"] = runC14 }

var (
	reAxiosMethod = regexp.MustCompile(`(?s)async (\w+)\((.*?)\) \{\s*const fullUrl = this\.baseUrl \+ "(.*?)";\s*this\.startRequest\(\);\s*try \{\s*(.*?)\s*\} catch \(error\)`)
	reFormAppend  = regexp.MustCompile(`formData\.append\("(.*?)", (.*?)\)\n`)
	reAxiosCall   = regexp.MustCompile(`(?s)await Axios\.(\w+)\(fullUrl, (.*?)\);`)
	reQueryEntry  = regexp.MustCompile(`"([^"]*)": (String\(params\["[^"]*"\]\)|params\["[^"]*"\] \? 'ok' : ''|params\["[^"]*"\])`)
	reTSDeclared  = regexp.MustCompile(`(?m)export (?:type|interface|const) (\w+)`)
	reTSIdent     = regexp.MustCompile(`[A-Za-z_]\w*`)
)

type methodObs struct {
	Name      string
	Args      []string
	ArgTypes  []string
	Verb, URL string
	Second    string
	Form      [][2]string
	Query     [][2]string
	ArrayBuf  bool
	Return    string
	Unparsed  string
}

func readAxios(text string) ([]methodObs, []string, []string) {
	var out []methodObs
	mentioned := map[string]bool{}
	for _, m := range reAxiosMethod.FindAllStringSubmatch(text, -1) {
		mo := methodObs{Name: m[1], URL: m[3]}
		// arguments: name: type, split at top level commas
		depth := 0
		cur := ""
		flush := func() {
			c := strings.TrimSpace(cur)
			cur = ""
			if c == "" {
				return
			}
			i := strings.Index(c, ":")
			if i < 0 {
				mo.Unparsed += "arg:" + c
				return
			}
			mo.Args = append(mo.Args, strings.TrimSpace(c[:i]))
			ty := strings.TrimSpace(c[i+1:])
			mo.ArgTypes = append(mo.ArgTypes, ty)
			// type names mentioned (outside string literals)
			noStr := regexp.MustCompile(`"[^"]*"`).ReplaceAllString(ty, "")
			for _, id := range reTSIdent.FindAllString(noStr, -1) {
				mentioned[id] = true
			}
		}
		for _, ch := range m[2] {
			switch ch {
			case '{', '(', '[', '<':
				depth++
			case '}', ')', ']', '>':
				depth--
			}
			if ch == ',' && depth == 0 {
				flush()
				continue
			}
			cur += string(ch)
		}
		flush()
		block := m[4]
		for _, f := range reFormAppend.FindAllStringSubmatch(block, -1) {
			src := f[2]
			switch {
			case src == "file, file.name":
				src = "file"
			case strings.HasPrefix(src, "formParams["):
				src = "param:" + strings.Trim(strings.TrimSuffix(strings.TrimPrefix(src, "formParams["), "]"), `"`)
			case src == "JSON.stringify(formValue)":
				src = "json"
			default:
				mo.Unparsed += "form:" + src
			}
			mo.Form = append(mo.Form, [2]string{f[1], src})
		}
		c := reAxiosCall.FindStringSubmatch(block)
		if c == nil {
			mo.Unparsed += "no axios call"
			out = append(out, mo)
			continue
		}
		mo.Verb = c[1]
		args := strings.TrimSpace(c[2])
		cfg := args
		mo.Second = "none"
		if !strings.HasPrefix(args, "{") {
			i := strings.Index(args, ",")
			mo.Second = strings.TrimSpace(args[:i])
			cfg = strings.TrimSpace(args[i+1:])
		}
		if !strings.Contains(cfg, "headers: this.getHeaders()") {
			mo.Unparsed += "no headers"
		}
		mo.ArrayBuf = strings.Contains(cfg, "responseType: 'arraybuffer'")
		if i := strings.Index(cfg, "params: {"); i >= 0 {
			for _, q := range reQueryEntry.FindAllStringSubmatch(cfg[i:], -1) {
				conv := "identity"
				if strings.HasPrefix(q[2], "String(") {
					conv = "string"
				} else if strings.Contains(q[2], "'ok'") {
					conv = "bool"
				}
				mo.Query = append(mo.Query, [2]string{q[1], conv})
			}
		}
		switch {
		case strings.Contains(block, "return { blob: rep.data, filename: filename}"):
			mo.Return = "blob"
		case strings.Contains(block, "return rep.data;"):
			mo.Return = "data"
		case strings.Contains(block, "return true;"):
			mo.Return = "true"
		default:
			mo.Unparsed += "no return"
		}
		out = append(out, mo)
	}
	var decl []string
	for _, d := range reTSDeclared.FindAllStringSubmatch(text, -1) {
		decl = append(decl, d[1])
	}
	// a const + type pair (enums) declares one name twice by design: count it once
	seen := map[string]int{}
	var declared []string
	for _, d := range decl {
		seen[d]++
	}
	constType := regexp.MustCompile(`export const (\w+) = \{`)
	isEnumPair := map[string]bool{}
	for _, m := range constType.FindAllStringSubmatch(text, -1) {
		isEnumPair[m[1]] = true
	}
	for d, n := range seen {
		if isEnumPair[d] && n == 2 {
			n = 1
		}
		for i := 0; i < n; i++ {
			declared = append(declared, d)
		}
	}
	var ment []string
	for k := range mentioned {
		ment = append(ment, k)
	}
	return out, ment, declared
}

func coqMethod(m methodObs) string {
	second := map[string]string{"formData": "AFormData", "params": "AParams", "null": "ANull", "none": "ANone"}[m.Second]
	if second == "" {
		second = "ANone"
	}
	var form, query []string
	for _, f := range m.Form {
		src := "FFile"
		if f[1] == "json" {
			src = "FJson"
		} else if strings.HasPrefix(f[1], "param:") {
			src = "(FParam " + coqStr(strings.TrimPrefix(f[1], "param:")) + ")"
		}
		form = append(form, fmt.Sprintf("(%s, %s)", coqStr(f[0]), src))
	}
	for _, q := range m.Query {
		conv := map[string]string{"string": "CString", "bool": "CBoolOk", "identity": "CIdentity"}[q[1]]
		query = append(query, fmt.Sprintf("(%s, %s)", coqStr(q[0]), conv))
	}
	ret := map[string]string{"data": "RData", "blob": "RBlob", "true": "RTrue"}[m.Return]
	if ret == "" {
		ret = "RData"
	}
	return fmt.Sprintf("{| mi_name := %s; mi_args := %s; mi_verb := %s; mi_url := %s; mi_second := %s; mi_form := %s; mi_query := %s; mi_arraybuffer := %s; mi_return := %s |}",
		coqStr(m.Name), coqStrList(m.Args), coqStr(m.Verb), coqStr(m.URL), second, coqList(form), coqList(query), coqBool(m.ArrayBuf), ret)
}

func kindOfTypeString(t string) string {
	switch {
	case t == "bool" || strings.HasSuffix(t, ".Flag"):
		return "bool"
	case t == "string" || strings.HasSuffix(t, ".Token"):
		return "string"
	default:
		return "number" // the synthesiser only produces integer-backed query parameter types besides bool and string
	}
}

func runC14(e *env) {
	e.m.Rule = "endpoint lists extracted from seeded synthesised route files (every verb x JSON body / form data with file, values and JSON field / no body x 0..4 query parameters of string, bool, int64 and named int64 types x data, blob and no return): " +
		"the client text is parsed method by method into (name, parameters, verb, URL, data argument, form entries, query conversions, response type, returned value) and compared with the model; " +
		"each parsed method is interpreted (AxiosSem) and compared with the request specified for its endpoint; the names its signatures mention must be declared once; one evaluation = one endpoint; non-trivial = endpoint with a body or a query parameter"
	e.m.Extra = map[string]interface{}{"mismatch_means": "model",
		"assumptions": []string{"axios calling conventions: get/delete(url, config), post/put(url, data, config)", "the client is not executed (no TypeScript toolchain, no type stripping under Node): its text is parsed by the harness"}}
	n := 14
	if e.thorough() {
		n = 200
	}
	var specs []*modSpec
	// the recorded finding (data with GET / DELETE) is shown by this file only
	specs = append(specs, &modSpec{Name: "axios-get-with-body", ModPath: "example.com/org/api", Target: "routes.go", Class: "axios-data-argument-with-get-or-delete",
		Files: []modFile{{"routes.go", "package main\n\nimport \"example.com/org/api/echo\"\n\ntype Params struct {\n\tA int\n}\n\ntype controller struct{}\n\nfunc (ct controller) search(c echo.Context) error {\n\tvar in Params\n\tif err := c.Bind(&in); err != nil {\n\t\treturn err\n\t}\n\tq := c.QueryParam(\"q\")\n\t_ = q\n\tvar out []int\n\treturn c.JSON(200, out)\n}\n\nfunc (ct controller) remove(c echo.Context) error {\n\tv := c.FormValue(\"fv\")\n\t_ = v\n\treturn nil\n}\n\nfunc routes(e *echo.Echo, ct *controller) {\n\te.GET(\"/search\", ct.search)\n\te.DELETE(\"/remove\", ct.remove)\n}\n"}, {"echo/echo.go", echoStub}}})
	// the only integer of the file is a query parameter: its TypeScript type must still be declared
	specs = append(specs, &modSpec{Name: "axios-int-query-only", ModPath: "example.com/org/api", Target: "routes.go",
		Files: []modFile{{"routes.go", "package main\n\nimport \"example.com/org/api/echo\"\n\ntype controller struct{}\n\nfunc (controller) QueryParamInt64(echo.Context, string) int64 { return 0 }\nfunc (controller) QueryParamBool(echo.Context, string) bool   { return false }\n\nfunc (ct controller) page(c echo.Context) error {\n\tp := ct.QueryParamInt64(c, \"page\")\n\t_ = p\n\tvar out string\n\treturn c.JSON(200, out)\n}\n\nfunc (ct controller) flag(c echo.Context) error {\n\tb := ct.QueryParamBool(c, \"on\")\n\t_ = b\n\tvar out []string\n\treturn c.JSON(200, out)\n}\n\nfunc routes(e *echo.Echo, ct controller) {\n\te.GET(\"/page\", ct.page)\n\te.GET(\"/flag\", ct.flag)\n}\n"}, {"echo/echo.go", echoStub}}})
	// the key type of a map is mentioned by the signatures too: its declaration must be in the file even when nothing
	// else mentions it
	specs = append(specs, &modSpec{Name: "axios-map-key-types", ModPath: "example.com/org/api", Target: "routes.go",
		Files: []modFile{{"routes.go", "package main\n\nimport \"example.com/org/api/echo\"\n\ntype Key int64\n\ntype Color string\n\nconst (\n\tRed Color = \"red\"\n\tBlue Color = \"blue\"\n)\n\ntype Dossier struct{ Title string }\n\ntype controller struct{}\n\nfunc (ct controller) byKey(c echo.Context) error {\n\tvar out map[Key]Dossier\n\treturn c.JSON(200, out)\n}\n\nfunc (ct controller) byInt(c echo.Context) error {\n\tvar in map[int]string\n\tif err := c.Bind(&in); err != nil {\n\t\treturn err\n\t}\n\tvar out map[Color]bool\n\treturn c.JSON(200, out)\n}\n\nfunc routes(e *echo.Echo, ct controller) {\n\te.GET(\"/by_key\", ct.byKey)\n\te.POST(\"/by_int\", ct.byInt)\n}\n"}, {"echo/echo.go", echoStub}}})
	if m := repoFixture("repo-httpapi-routes", "analysis/httpapi/test/routes.go"); m != nil {
		m.Class = "axios-data-argument-with-get-or-delete" // its handle1 is a GET binding a body
		specs = append(specs, m)
	}
	routesAvoidGetWithData = true
	for i := 0; i < n; i++ {
		m, _ := synthRoutes(e.r, i, false)
		specs = append(specs, m)
	}
	routesAvoidGetWithData = false
	res := make([]*httpObs, len(specs))
	var wg sync.WaitGroup
	sem := make(chan struct{}, 14)
	for i, s := range specs {
		wg.Add(1)
		sem <- struct{}{}
		go func(i int, s *modSpec) {
			defer wg.Done()
			defer func() { <-sem }()
			res[i] = observeHTTPModule(s, "")
		}(i, s)
	}
	wg.Wait()
	var cases []string
	var inputs []interface{}
	for i, o := range res {
		spec := specs[i]
		if o.LoadErr != "" || o.Outcome != "ok" {
			e.m.count("skipped_" + o.Outcome)
			continue
		}
		e.m.count("axios_" + o.Axios.Outcome)
		var eps []string
		cls := ""
		for _, ep := range o.Endpoints {
			e.m.Evaluations++
			if ep.Input != "" || len(ep.Query) > 0 || ep.File != "" || len(ep.FormValues) > 0 {
				e.m.Nontrivial++
			}
			var kinds []string
			for _, q := range ep.Query {
				kinds = append(kinds, coqStr(kindOfTypeString(q.Type)))
			}
			cls = spec.Class
			e.m.count("verb_" + ep.Method)
			eps = append(eps, fmt.Sprintf("{| ae := %s; ae_kinds := %s |}", coqEndpoint(ep), coqList(kinds)))
		}
		methods := "None"
		var ms []methodObs
		var mentioned, declared []string
		if o.Axios.Outcome == "ok" {
			ms, mentioned, declared = readAxios(o.Axios.Text)
			var items []string
			for _, m := range ms {
				if m.Unparsed != "" {
					e.m.fail(oracleFailure{What: "the client text of method " + m.Name + " is not in the expected form: " + m.Unparsed, Input: spec})
				}
				items = append(items, coqMethod(m))
			}
			methods = "(Some " + coqListNL(items) + ")"
			if len(ms) > 0 {
				e.m.sample(map[string]interface{}{"file": spec.Name, "method": ms[0]})
			}
		} else if o.Axios.Outcome == "crash" {
			e.m.fail(oracleFailure{What: "GenerateAxios dies with a runtime error: " + o.Axios.Msg, Input: spec})
		}
		mkCase := func(mode int) string {
			return fmt.Sprintf("{| c14_endpoints := %s;\n c14_methods := %s;\n c14_mentioned := %s;\n c14_declared := %s;\n c14_mode := %d |}", coqListNL(eps), methods, coqStrList(mentioned), coqStrList(declared), mode)
		}
		if cls != "" {
			// evaluated twice: everything but the recorded finding (reported), then the finding alone (known)
			cases = append(cases, mkCase(1))
			inputs = append(inputs, map[string]interface{}{"module": spec, "endpoints": o.Endpoints, "methods": ms, "axios": o.Axios.Outcome + " " + o.Axios.Msg, "class": ""})
			cases = append(cases, mkCase(2))
		} else {
			cases = append(cases, mkCase(0))
		}
		inputs = append(inputs, map[string]interface{}{"module": spec, "endpoints": o.Endpoints, "methods": ms, "axios": o.Axios.Outcome + " " + o.Axios.Msg, "class": cls, "class_scope": "property-only"})
		if len(cases) >= 10 {
			e.writeCases2(fmt.Sprintf("cases_C14_%d", len(e.m.CaseFiles)), "From Coq Require Import List String.\nFrom GM Require Import Base.Hex Model.Http Model.Axios Corr.Check_C14.\nImport ListNotations.\nLocal Open Scope string_scope.\n", "mismatches", "prop_failures", cases, inputs)
			cases, inputs = nil, nil
		}
	}
	if len(cases) > 0 {
		e.writeCases2(fmt.Sprintf("cases_C14_%d", len(e.m.CaseFiles)), "From Coq Require Import List String.\nFrom GM Require Import Base.Hex Model.Http Model.Axios Corr.Check_C14.\nImport ListNotations.\nLocal Open Scope string_scope.\n", "mismatches", "prop_failures", cases, inputs)
	}
}
