package main

// E2: observation of the real analysis (and, later, of the generators) on one loaded module.
// Runs in a child process so that a fatal error of gomacro (stack overflow) is an observation.

import (
	"bytes"
	"context"
	"encoding/json"
	"fmt"
	"go/ast"
	"go/types"
	"os"
	"os/exec"
	"reflect"
	"regexp"
	"runtime/debug"
	"sort"
	"strings"
	"sync"
	"time"

	"github.com/benoitkugler/gomacro/analysis"
	"golang.org/x/tools/go/packages"
)

type genOut struct {
	Outcome string `json:"outcome"` // ok | diag | crash
	Msg     string `json:"msg,omitempty"`
	Text    string `json:"text,omitempty"`
}

type fieldObs struct {
	Name, Tag, JSON      string
	GoExported, Exported bool
	EmbeddedStruct       bool
}

type structObs struct {
	ID, Local, Pkg string
	Fields         []fieldObs
	StdKeys        []string // keys written by the real encoding/json for a value with every field non-empty (nil: could not be built)
	StdKeysKept    []string // same, the fields tagged gomacro:"ignore" removed from the struct first
	StdOK          bool
	ObsComments    []string // kind|content kept by the analysis
	ExpComments    []string // kind|content of the directives written on this struct's own declaration (E1, from the syntax tree)
}

type namedObs struct {
	Kind, ID, Local, PkgName, PkgPath string
	Members                           []string // union: member local names ; enum: exported constant names
	Hidden                            []string // enum: unexported constant names
	Implementers                      []string // union: the non-interface, non-generic defined types of its package implementing it, by go/types (E1)
}

type obsResult struct {
	Nameds   []namedObs        `json:"nameds,omitempty"`
	RootPkg  string            `json:"root_pkg,omitempty"`
	Structs  []structObs       `json:"structs,omitempty"`
	LoadErr  string            `json:"load_err,omitempty"`
	Outcome  string            `json:"outcome"` // analysis outcome: ok | diag | crash | fatal
	Msg      string            `json:"msg,omitempty"`
	Facts    string            `json:"facts"`  // Coq term : prog
	Ana      string            `json:"ana"`    // Coq term : ana_obs
	Enums    string            `json:"enums"`  // Coq term : list enum (hook)
	Unions   string            `json:"unions"` // Coq term : list (string * list string) (hook)
	Source   string            `json:"source"` // Coq term : list gty — E1's own reading of the file's type declarations, by position
	Gen      map[string]genOut `json:"gen,omitempty"`
	Extra    map[string]string `json:"extra,omitempty"`
	NumNodes int               `json:"num_nodes"`
	Kinds    map[string]int    `json:"kinds,omitempty"`
}

var akindNames = map[string]string{"*analysis.Basic": "KdBasic", "*analysis.Time": "KdTime", "*analysis.Array": "KdArray", "*analysis.Map": "KdMap",
	"*analysis.Named": "KdNamed", "*analysis.Enum": "KdEnum", "*analysis.Struct": "KdStruct", "*analysis.Union": "KdUnion", "*analysis.Pointer": "KdPointer"}

// coqSelfTy renders node.Type(), with the predefined time and date types as GNamed "Time" / "Date".
func (fx *factsCtx) coqSelfTy(t types.Type) string {
	if n, ok := t.(*types.Named); ok && n.Obj().Pkg() == nil && (n.Obj().Name() == "Time" || n.Obj().Name() == "Date") {
		return "(GNamed " + coqStr(n.Obj().Name()) + ")"
	}
	switch t := t.(type) {
	case *types.Pointer:
		return "(GPointer " + fx.coqSelfTy(t.Elem()) + ")"
	case *types.Array:
		return fmt.Sprintf("(GArray %s %s)", coqZ(t.Len()), fx.coqSelfTy(t.Elem()))
	case *types.Slice:
		return "(GSlice " + fx.coqSelfTy(t.Elem()) + ")"
	case *types.Map:
		return fmt.Sprintf("(GMap %s %s)", fx.coqSelfTy(t.Key()), fx.coqSelfTy(t.Elem()))
	}
	return fx.coqTy(t)
}

type walker struct {
	fx      *factsCtx
	an      *analysis.Analysis
	unions  map[*types.Named][]*types.Named
	visited map[string]bool
	recs    []string
	kinds   map[string]int
	structs []structObs
	nameds  []namedObs
}

func safeType(n analysis.Type) (t types.Type) {
	defer func() {
		if recover() != nil {
			t = nil
		}
	}()
	return n.Type()
}

func (w *walker) visit(node analysis.Type, at types.Type) { w.visitAt(node, at, "") }

// visitAt: atCoq overrides the rendering of the position (used for the Time node below a user-defined time type)
func (w *walker) visitAt(node analysis.Type, at types.Type, atCoq string) {
	if node == nil || reflect.ValueOf(node).IsNil() {
		w.recs = append(w.recs, fmt.Sprintf("{| nr_at := %s; nr_kind := KdBasic; nr_self := GOther \"nil node\"; nr_len := 0%%Z; nr_bkind := None; nr_is_date := false; nr_children := []; nr_fields := []; nr_comments := []; nr_implements := []; nr_members := []; nr_in_types := false |}", w.fx.coqTy(at)))
		return
	}
	key := fmt.Sprintf("%p|%s|%s", node, tyID(types.Unalias(at)), atCoq)
	if w.visited[key] {
		return
	}
	w.visited[key] = true
	kind := akindNames[fmt.Sprintf("%T", node)]
	w.kinds[kind]++
	self := "GOther \"Type() panicked\""
	if st := safeType(node); st != nil {
		self = w.fx.coqSelfTy(st)
	}
	inTypes := false
	if reg, ok := w.an.Types[at]; ok && reg == node {
		inTypes = true
	}
	length, bk, isDate := int64(0), "None", false
	var children []types.Type
	var childNodes []analysis.Type
	var fields, comments, implements, members []string
	under := types.Unalias(at).Underlying()
	mismatch := types.Type(types.Typ[types.Invalid])
	namedTimeChild := false
	switch n := node.(type) {
	case *analysis.Basic:
		bk = "(Some " + coqKind(n.B) + ")"
	case *analysis.Time:
		isDate = n.IsDate
	case *analysis.Array:
		length = int64(n.Len)
		switch u := under.(type) {
		case *types.Array:
			children = append(children, u.Elem())
		case *types.Slice:
			children = append(children, u.Elem())
		default:
			children = append(children, mismatch)
		}
		childNodes = append(childNodes, n.Elem)
	case *analysis.Map:
		if u, ok := under.(*types.Map); ok {
			children = append(children, u.Key(), u.Elem())
		} else {
			children = append(children, mismatch, mismatch)
		}
		childNodes = append(childNodes, n.Key, n.Elem)
	case *analysis.Pointer:
		if u, ok := under.(*types.Pointer); ok {
			children = append(children, u.Elem())
		} else {
			children = append(children, mismatch)
		}
		childNodes = append(childNodes, n.Elem)
	case *analysis.Named:
		children = append(children, under)
		childNodes = append(childNodes, n.Underlying)
		namedTimeChild = under.String() == timeStructString
	case *analysis.Enum:
		for _, m := range n.Members {
			members = append(members, coqStr(m.Const.Name()))
		}
	case *analysis.Union:
		named, _ := types.Unalias(at).(*types.Named)
		want := w.unions[named]
		for i, m := range n.Members {
			if i < len(want) {
				children = append(children, want[i])
			} else {
				children = append(children, mismatch)
			}
			childNodes = append(childNodes, m)
			if mt := safeType(m); mt != nil {
				members = append(members, coqStr(tyID(mt)))
			}
		}
		for i := len(n.Members); i < len(want); i++ { // missing members show up as a length difference
			members = append(members, coqStr("<missing "+tyID(want[i])+">"))
		}
	case *analysis.Struct:
		for _, f := range n.Fields {
			children = append(children, f.Field.Type())
			childNodes = append(childNodes, f.Type)
			fields = append(fields, fmt.Sprintf("{| af_name := %s; af_type := %s; af_tag := %s; af_go_exported := %s; af_exported := %s; af_json := %s |}",
				coqStr(f.Field.Name()), w.fx.coqTy(f.Field.Type()), coqStr(string(f.Tag)), coqBool(f.Field.Exported()), coqBool(f.Exported()), coqStr(f.JSONName())))
		}
		for _, c := range n.Comments {
			comments = append(comments, fmt.Sprintf("(%d, %s)", c.Kind, coqStr(c.Content)))
		}
		for _, u := range n.Implements {
			implements = append(implements, coqStr(tyID(u.Type())))
		}
		so := structObs{ID: tyID(n.Name), Local: n.Name.Obj().Name()}
		if n.Name.Obj().Pkg() != nil {
			so.Pkg = n.Name.Obj().Pkg().Path()
		}
		for _, f := range n.Fields {
			so.Fields = append(so.Fields, fieldObs{Name: f.Field.Name(), Tag: string(f.Tag), JSON: f.JSONName(), GoExported: f.Field.Exported(), Exported: f.Exported()})
		}
		for _, c := range n.Comments {
			so.ObsComments = append(so.ObsComments, fmt.Sprintf("%d|%s", c.Kind, c.Content))
		}
		so.ExpComments = w.fx.expectedComments(n.Name)
		so.StdKeys, so.StdOK = stdJSONKeys(n.Name, false)
		so.StdKeysKept, _ = stdJSONKeys(n.Name, true)
		w.structs = append(w.structs, so)
	}
	if named, ok := types.Unalias(at).(*types.Named); ok && named.Obj().Pkg() != nil && kind != "KdTime" {
		no := namedObs{Kind: kind, ID: tyID(named), Local: named.Obj().Name(), PkgName: named.Obj().Pkg().Name(), PkgPath: named.Obj().Pkg().Path()}
		switch n := node.(type) {
		case *analysis.Union:
			for _, m := range n.Members {
				if mt, ok := safeType(m).(*types.Named); ok {
					no.Members = append(no.Members, mt.Obj().Name())
				}
			}
			if itf, ok := named.Underlying().(*types.Interface); ok && named.TypeParams().Len() == 0 {
				scope := named.Obj().Pkg().Scope()
				for _, name := range scope.Names() {
					tn, ok := scope.Lookup(name).(*types.TypeName)
					if !ok || tn.IsAlias() {
						continue
					}
					cand, ok := tn.Type().(*types.Named)
					if !ok || cand.TypeParams().Len() != 0 || types.IsInterface(cand) {
						continue
					}
					if types.Implements(cand, itf) {
						no.Implementers = append(no.Implementers, name)
					}
				}
			}
		case *analysis.Enum:
			for _, m := range n.Members {
				if m.Const.Exported() {
					no.Members = append(no.Members, m.Const.Name())
				} else {
					no.Hidden = append(no.Hidden, m.Const.Name())
				}
			}
		}
		w.nameds = append(w.nameds, no)
	}
	var ch []string
	for _, c := range children {
		if namedTimeChild {
			ch = append(ch, "(GStructLit "+coqStr("time struct of "+tyID(types.Unalias(at)))+")")
		} else {
			ch = append(ch, w.fx.coqTy(c))
		}
	}
	atStr := atCoq
	if atStr == "" {
		atStr = w.fx.coqTy(at)
	}
	w.recs = append(w.recs, fmt.Sprintf("{| nr_at := %s; nr_kind := %s; nr_self := %s; nr_len := %s; nr_bkind := %s; nr_is_date := %s; nr_children := %s; nr_fields := %s; nr_comments := %s; nr_implements := %s; nr_members := %s; nr_in_types := %s |}",
		atStr, kind, self, coqZ(length), bk, coqBool(isDate), coqList(ch), coqList(fields), coqList(comments), coqList(implements), coqList(members), coqBool(inTypes)))
	for i, c := range childNodes {
		if namedTimeChild {
			w.visitAt(c, children[i], "(GStructLit "+coqStr("time struct of "+tyID(types.Unalias(at)))+")")
		} else {
			w.visit(c, children[i])
		}
	}
}

func coqUnionTable(unions map[*types.Named][]*types.Named) string {
	var ids []string
	by := map[string][]*types.Named{}
	for n, ms := range unions {
		ids = append(ids, tyID(n))
		by[tyID(n)] = ms
	}
	sort.Strings(ids)
	var items []string
	for _, id := range ids {
		var ms []string
		for _, m := range by[id] {
			ms = append(ms, coqStr(tyID(m)))
		}
		items = append(items, fmt.Sprintf("(%s, %s)", coqStr(id), coqList(ms)))
	}
	return coqListNL(items)
}

// observe runs in the child process.
func observe(target string, what string) *obsResult {
	res := &obsResult{Gen: map[string]genOut{}, Extra: map[string]string{}}
	debug.SetMaxStack(64 << 20)
	pkg, err := analysis.LoadSource(target)
	if err != nil {
		res.LoadErr = err.Error()
		return res
	}
	fx := newFacts(pkg)
	var enums map[*types.Named]*analysis.Enum
	var unions map[*types.Named][]*types.Named
	func() {
		defer func() {
			if r := recover(); r != nil {
				c, m := panicClass(r)
				res.Extra["enums_outcome"] = c
				res.Extra["enums_msg"] = m
			}
		}()
		enums, unions = analysis.VerifEnumsAndUnions(pkg)
		res.Extra["enums_outcome"] = "ok"
	}()
	var an *analysis.Analysis
	func() {
		defer func() {
			if r := recover(); r != nil {
				res.Outcome, res.Msg = panicClass(r)
			}
		}()
		an = analysis.NewAnalysisFromFile(pkg, target)
		res.Outcome = "ok"
	}()
	outcome := map[string]string{"ok": "OutOk", "diag": "(OutDiag " + coqStr(res.Msg) + ")", "crash": "(OutCrash " + coqStr(res.Msg) + ")"}[res.Outcome]
	var source, keys, nodes []string
	if an != nil {
		w := &walker{fx: fx, an: an, unions: unions, visited: map[string]bool{}, kinds: map[string]int{}}
		for _, s := range an.Source {
			source = append(source, fx.coqTy(s))
			w.visit(an.Types[s], s)
		}
		type kv struct {
			k string
			t types.Type
		}
		var kvs []kv
		for k := range an.Types {
			kvs = append(kvs, kv{fx.coqTy(k), k})
		}
		sort.Slice(kvs, func(i, j int) bool { return kvs[i].k < kvs[j].k })
		for _, e := range kvs {
			keys = append(keys, e.k)
			w.visit(an.Types[e.t], e.t)
		}
		nodes = w.recs
		res.Structs = w.structs
		res.Nameds = w.nameds
		res.RootPkg = pkg.PkgPath
		res.NumNodes = len(nodes)
		res.Kinds = w.kinds
	}
	res.Ana = fmt.Sprintf("{| ao_outcome := %s;\n ao_source := %s;\n ao_types_keys := %s;\n ao_nodes := %s |}", outcome, coqList(source), coqList(keys), coqListNL(nodes))
	if enums != nil {
		res.Enums = coqEnumTable(enums)
		res.Unions = coqUnionTable(unions)
	} else {
		res.Enums, res.Unions = "[]", "[]"
	}
	if an != nil && what != "" {
		observeGenerators(res, pkg, an, target, what)
	}
	res.Source = fx.expectedSource(target)
	// facts last: rendering may have noted more defined types
	res.Facts = fx.coqProg()
	return res
}

// hook for the generator observations (filled in by the generator checks)
var observeGenerators = func(res *obsResult, pkg *packages.Package, an *analysis.Analysis, target string, what string) {}

func init() {
	commands["child-observe"] = func(e *env) {
		// args: target what
		target := os.Getenv("GMV_TARGET")
		res := observe(target, os.Getenv("GMV_WHAT"))
		b, _ := json.Marshal(res)
		os.Stdout.Write(b)
	}
}

// observeModule materialises the module and observes it in a child process.
func observeModule(m *modSpec, what string) *obsResult {
	_, target := m.materialize()
	self, _ := os.Executable()
	ctx, cancel := context.WithTimeout(context.Background(), 60*time.Second)
	defer cancel()
	cmd := exec.CommandContext(ctx, self, "-out", os.TempDir(), "child-observe")
	cmd.Env = append(os.Environ(), "GMV_TARGET="+target, "GMV_WHAT="+what, "GMV_CHILD=1")
	var stdout, stderr bytes.Buffer
	cmd.Stdout, cmd.Stderr = &stdout, &stderr
	err := cmd.Run()
	res := &obsResult{}
	if err != nil || json.Unmarshal(stdout.Bytes(), res) != nil {
		msg := tail(stderr.String(), 600)
		if ctx.Err() != nil {
			msg = "timeout after 60s"
		}
		if strings.Contains(stderr.String(), "stack overflow") || strings.Contains(stderr.String(), "goroutine stack exceeds") {
			msg = "fatal error: stack overflow (unbounded recursion)"
		}
		return &obsResult{Outcome: "fatal", Msg: msg}
	}
	return res
}

func observeAll(specs []*modSpec, what string, workers int) []*obsResult {
	out := make([]*obsResult, len(specs))
	var wg sync.WaitGroup
	sem := make(chan struct{}, workers)
	for i, s := range specs {
		wg.Add(1)
		sem <- struct{}{}
		go func(i int, s *modSpec) {
			defer wg.Done()
			defer func() { <-sem }()
			out[i] = observeModule(s, what)
		}(i, s)
	}
	wg.Wait()
	return out
}

// expectedSource: the type names declared in the analysed file, in source order (independent of gomacro).
func (fx *factsCtx) expectedSource(target string) string {
	type tn struct {
		pos int
		t   types.Type
	}
	var l []tn
	sc := fx.root.Types.Scope()
	for _, name := range sc.Names() {
		obj, ok := sc.Lookup(name).(*types.TypeName)
		if !ok {
			continue
		}
		p := fx.root.Fset.Position(obj.Pos())
		if p.Filename != target {
			continue
		}
		l = append(l, tn{p.Offset, obj.Type()})
	}
	sort.Slice(l, func(i, j int) bool { return l[i].pos < l[j].pos })
	var out []string
	for _, x := range l {
		out = append(out, fx.coqTy(x.t))
	}
	return coqList(out)
}

var reSpecialComment = regexp.MustCompile(`^// gomacro:(\w+) (.+)`)

// expectedComments: the directives carried by the declaration of the struct itself: the doc of an ungrouped
// `type X struct`, the doc of the type specification inside a grouped `type ( ... )`.
func (fx *factsCtx) expectedComments(named *types.Named) []string {
	obj := named.Origin().Obj()
	if obj.Pkg() == nil {
		return nil
	}
	p := fx.byPath[obj.Pkg().Path()]
	if p == nil || !strings.HasPrefix(p.PkgPath, userPrefix(fx.root.PkgPath)) {
		return nil
	}
	var out []string
	for _, f := range p.Syntax {
		for _, d := range f.Decls {
			gd, ok := d.(*ast.GenDecl)
			if !ok {
				continue
			}
			for _, sp := range gd.Specs {
				ts, ok := sp.(*ast.TypeSpec)
				if !ok || ts.Name.Pos() != obj.Pos() {
					continue
				}
				doc := gd.Doc
				if gd.Lparen.IsValid() {
					doc = ts.Doc
				}
				if doc == nil {
					return nil
				}
				for _, c := range doc.List {
					if m := reSpecialComment.FindStringSubmatch(c.Text); m != nil {
						kind := map[string]int{"SQL": 1, "QUERY": 2}[m[1]]
						out = append(out, fmt.Sprintf("%d|%s", kind, m[2]))
					}
				}
			}
		}
	}
	return out
}
