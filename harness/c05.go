package main

// C05: the generated CRUD file read back statement by statement (SQL text, arguments, scan destinations) and the
// generated schema, compared with the model and checked for well-formedness in Coq.

import (
	"encoding/json"
	"fmt"
	"go/ast"
	"go/parser"
	"go/token"
	"go/types"
	"regexp"
	"strconv"
	"strings"
	"sync"
)

func init() { commands["C05"] = runC05 }

// ---- model files: tables only in models.go, helper types in a sibling file ----

const crudHelpers = `package models

import "time"

type Color int

const (
	Red Color = iota
	Green
	Blue
)

type Level string

const (
	Low  Level = "low"
	High Level = "high"
)

type Date time.Time

type Point struct {
	X int
	Y int16
	C Color
}

type Strings []string
type Triple [3]int
type Colors []Color
type MapSI map[string]int

type Payload struct {
	Name  string ` + "`json:\"name\"`" + `
	Tags  Strings
	Inner Point
	Opt   MapSI
}

type Payloads []Payload

// helpers the generated code expects for date types
func NewDateFrom(t time.Time) Date { return Date(t) }
func (d Date) Time() time.Time     { return time.Time(d) }
`

type crudIntent struct {
	Tables []string
}

func synthCrud(r *rng, idx int) *modSpec {
	var b strings.Builder
	b.WriteString("package models\n\nimport (\n\t\"database/sql\"\n\t\"time\"\n)\n\nvar _ sql.NullInt64\nvar _ time.Time\n\n")
	n := 2 + r.intn(4)
	names := []string{"User", "Account", "BlogPost", "HTTPLog", "Item", "OrderLine", "Tag", "A"}
	shuffle(r, names)
	names = names[:n]
	var ids strings.Builder
	ids.WriteString("package models\n\n")
	for _, t := range names {
		fmt.Fprintf(&ids, "type Id%s int64\n", t)
		fmt.Fprintf(&ids, "type Opt%s struct {\n\tValid bool\n\tId Id%s\n}\n\n", t, t)
	}
	kinds := []string{"int", "int16", "bool", "float64", "string", "Color", "Level", "time.Time", "Date", "Strings", "Triple", "Colors", "Point", "Payload", "Payloads", "MapSI",
		"sql.NullInt64", "sql.NullString", "sql.NullBool", "sql.NullFloat64"}
	isLink := make([]bool, n)
	for ti := range names {
		isLink[ti] = ti > 0 && r.chance(1, 3)
	}
	for ti, t := range names {
		var fields []string
		var colNames []string
		// foreign keys
		nfk := 0
		for oi, o := range names {
			if o == t || isLink[oi] {
				continue
			}
			want := r.chance(1, 3) || (isLink[ti] && nfk == 0)
			if !want {
				continue
			}
			nfk++
			switch r.intn(4) {
			case 0:
				fields = append(fields, fmt.Sprintf("Id%s Id%s", o, o))
				colNames = append(colNames, "Id"+o)
			case 1:
				fields = append(fields, fmt.Sprintf("Id%s Id%s `gomacro-sql-on-delete:\"CASCADE\"`", o, o))
				colNames = append(colNames, "Id"+o)
			case 2:
				fields = append(fields, fmt.Sprintf("Ref%s Opt%s `gomacro-sql-foreign:\"%s\" gomacro-sql-on-delete:\"SET NULL\"`", o, o, o))
				colNames = append(colNames, "Ref"+o)
			default:
				fields = append(fields, fmt.Sprintf("Plain%s int64 `gomacro-sql-foreign:\"%s\"`", o, o))
				colNames = append(colNames, "Plain"+o)
			}
		}
		nc := 2 + r.intn(5)
		visible := 0
		for c := 0; c < nc || visible < 2; c++ { // at least two real columns beside the id (fewer is a recorded finding)
			name := fmt.Sprintf("C%d", c)
			k := r.intn(12)
			if c >= nc {
				k = 11
			}
			if k > 2 {
				visible++
			}
			switch k {
			case 0:
				fields = append(fields, fmt.Sprintf("%s string `gomacro-sql-guard:\"'fixed'\"`", name))
			case 1:
				fields = append(fields, fmt.Sprintf("g%d int `gomacro-sql-guard:\"3\"`", c))
			case 2:
				fields = append(fields, fmt.Sprintf("hidden%d int", c))
			default:
				fields = append(fields, name+" "+pick(r, kinds))
				colNames = append(colNames, name)
			}
		}
		if !isLink[ti] {
			id := fmt.Sprintf("%s Id%s", pick(r, []string{"Id", "Id", "ID", "Id"}), t)
			pos := 0
			if r.chance(1, 3) {
				pos = r.intn(len(fields) + 1)
			}
			fields = append(fields[:pos], append([]string{id}, fields[pos:]...)...)
		}
		// directives
		if len(colNames) > 0 && r.chance(1, 2) {
			fmt.Fprintf(&b, "// gomacro:SQL ADD UNIQUE(%s)\n", pick(r, colNames))
		}
		if len(colNames) > 1 && r.chance(1, 3) {
			fmt.Fprintf(&b, "// gomacro:SQL ADD UNIQUE(%s, %s)\n", colNames[0], colNames[len(colNames)-1])
		}
		if len(colNames) > 0 && r.chance(1, 2) {
			fmt.Fprintf(&b, "// gomacro:SQL _SELECT KEY(%s)\n", pick(r, colNames))
		}
		if len(colNames) > 1 && r.chance(1, 3) {
			fmt.Fprintf(&b, "// gomacro:SQL _SELECT KEY (%s, %s)\n", colNames[len(colNames)-1], colNames[0])
		}
		fmt.Fprintf(&b, "type %s struct {\n", t)
		for _, f := range fields {
			fmt.Fprintf(&b, "\t%s\n", f)
		}
		b.WriteString("}\n\n")
	}
	return &modSpec{Name: fmt.Sprintf("crud%d", idx), ModPath: "example.com/org/models", Target: "models.go",
		Files: []modFile{{"models.go", b.String()}, {"helpers.go", crudHelpers}, {"ids.go", ids.String()}}}
}

func corpusCrud() []*modSpec {
	mk := func(name, src string, extra ...modFile) *modSpec {
		return &modSpec{Name: name, ModPath: "example.com/org/models", Target: "models.go",
			Files: append([]modFile{{"models.go", src}, {"helpers.go", crudHelpers}}, extra...)}
	}
	return []*modSpec{
		mk("crud-basic", "package models\n\nimport \"database/sql\"\n\ntype IdUser int64\ntype IdPost int64\n\n// gomacro:SQL ADD UNIQUE(Email)\n// gomacro:SQL _SELECT KEY(Name)\ntype User struct {\n\tId IdUser\n\tName string\n\tEmail string\n\tAge sql.NullInt64\n\tp Point\n\tSecret string `gomacro-sql-guard:\"'x'\"`\n}\n\n// gomacro:SQL ADD UNIQUE(IdUser, Title)\ntype Post struct {\n\tTitle string\n\tID IdPost\n\tIdUser IdUser `gomacro-sql-on-delete:\"CASCADE\"`\n\tEditor OptUser `gomacro-sql-foreign:\"User\"`\n\tWhere Point\n\tBody Payload\n\tTags Strings\n}\n\n// gomacro:SQL ADD UNIQUE(IdPost)\n// gomacro:SQL _SELECT KEY(IdUser, IdPost)\ntype Like struct {\n\tIdUser IdUser\n\tIdPost IdPost\n\tBy OptUser `gomacro-sql-foreign:\"User\"`\n\tStars int\n}\n",
			modFile{"ids.go", "package models\n\ntype OptUser struct {\n\tValid bool\n\tId IdUser\n}\n"}),
		mk("crud-struct-columns", "package models\n\ntype IdParcel int64\n\ntype Parcel struct {\n\tId IdParcel\n\tName string\n\tLabel Sticker\n\tAt Position\n\tTags Words\n}\n",
			modFile{"types.go", "package models\n\ntype Kind string\n\nconst (\n\tFragile Kind = \"fragile\"\n\tHeavy Kind = \"heavy\"\n)\n\ntype Grade int\n\nconst (\n\tGradeLow Grade = iota\n\tGradeHigh\n)\n\n// an integer and a string enum: stored as JSON\ntype Sticker struct {\n\tWeight int\n\tKind Kind\n}\n\n// integers and an integer enum: a composite type\ntype Position struct {\n\tX int\n\tY int\n\tL Grade\n}\n\ntype Words []string\n"}),
		mk("crud-composite-with-hidden-fields", "package models\n\ntype IdTrack int64\n\ntype Track struct {\n\tId IdTrack\n\tTitle string\n\tExtent Span\n\tW Window\n}\n",
			modFile{"types.go", "package models\n\ntype Span struct {\n\tLo int\n\tHi int\n\tcache int\n}\n\ntype Window struct {\n\tFrom int `json:\"from\"`\n\tSkip int `json:\"-\"`\n\tTo int16\n}\n"}),
		mk("crud-fields-that-are-not-columns-before-the-id", "package models\n\ntype IdUser int64\n\ntype User struct {\n\tdirty bool\n\tcache []int\n\tId IdUser\n\tName string\n\tAge int16\n}\n\ntype IdPost int64\n\ntype Post struct {\n\tTitle string\n\tloaded bool\n\tId IdPost\n\tIdUser IdUser\n}\n"),
		mk("crud-json-column-with-arrays-of-several-lengths", "package models\n\ntype IdRoute int64\n\ntype Route struct {\n\tId IdRoute\n\tName string\n\tLeg Leg\n\tStops Stops\n}\n", modFile{"types.go", "package models\n\ntype Leg struct {\n\tFrom [2]int\n\tTo [3]int\n\tVia []int\n\tLabel string\n}\n\ntype Stops [][2]float64\n"}),
		mk("crud-enum-with-unexported-constant", "package models\n\ntype IdTask int64\n\ntype Task struct {\n\tId IdTask\n\tTitle string\n\tState TaskState\n\tFlag TaskState `gomacro-sql-guard:\"#[TaskState.archived]\"`\n}\n", modFile{"types.go", "package models\n\ntype TaskState int\n\nconst (\n\tTodo TaskState = iota\n\tDoing\n\tarchived\n)\n"}),
		withClass(mk("crud-single-column", "package models\n\ntype IdTag int64\n\ntype Tag struct {\n\tId IdTag\n\tName string\n}\n"), "update-single-column-row"),
		withClass(mk("crud-id-only", "package models\n\ntype IdCounter int64\n\ntype Counter struct {\n\tId IdCounter\n}\n"), "table-with-only-an-id"),
		withClass(mk("crud-link-without-key", "package models\n\ntype Setting struct {\n\tName string\n\tValue string\n}\n"), "link-table-without-foreign-key"),
	}
}

// ---- reader of the generated Go file ----

type crudFun struct {
	Name string
	SQL  string
	Stmt string // Coq sstmt, "" when not understood
	Args []string
	Scan string
}

var (
	reInsert   = regexp.MustCompile(`^INSERT INTO (\w+) \( ?(.*?) ?\) VALUES \( ?(.*?) ?\)(?: RETURNING (.*?))? ?;$`)
	reUpdate   = regexp.MustCompile(`^UPDATE (\w+) SET \( ?(.*?) ?\) = \( ?(.*?) ?\) WHERE (\w+) = \$(\d+) RETURNING (.*?) ?;$`)
	reDelete   = regexp.MustCompile(`^DELETE FROM (\w+) WHERE ?(.*?)(?: RETURNING (.*?))? ?;?$`)
	reSelect   = regexp.MustCompile(`^SELECT (.*?) FROM (\w+)(?: WHERE (.*))?$`)
	reCondEq   = regexp.MustCompile(`^(\w+) = \$(\d+)$`)
	reCondAny  = regexp.MustCompile(`^(\w+) = ANY\(\$(\d+)\)$`)
	reCondNull = regexp.MustCompile(`^\(\((\w+) IS NULL AND \$(\d+) IS NULL\) OR (\w+) = \$(\d+)\)$`)
)

func splitList(s string) []string {
	s = strings.TrimSpace(s)
	if s == "" {
		return nil
	}
	var out []string
	for _, p := range strings.Split(s, ",") {
		out = append(out, strings.TrimSpace(p))
	}
	return out
}

func coqNatList(ps []string) (string, bool) {
	var out []string
	for _, p := range ps {
		if !strings.HasPrefix(p, "$") {
			return "", false
		}
		n, err := strconv.Atoi(p[1:])
		if err != nil {
			return "", false
		}
		out = append(out, fmt.Sprint(n))
	}
	return coqList(out), true
}

func coqConds(s string) (string, bool) {
	s = strings.TrimSpace(s)
	if s == "" {
		return "[]", true
	}
	var out []string
	for _, c := range strings.Split(s, " AND ") {
		c = strings.TrimSpace(c)
		// the null-safe comparison contains an AND itself: re-join below
		out = append(out, c)
	}
	// re-join pieces of "((x IS NULL AND $n IS NULL) OR x = $n)"
	var joined []string
	for i := 0; i < len(out); i++ {
		if strings.HasPrefix(out[i], "((") && i+1 < len(out) {
			joined = append(joined, out[i]+" AND "+out[i+1])
			i++
		} else {
			joined = append(joined, out[i])
		}
	}
	var terms []string
	for _, c := range joined {
		if m := reCondEq.FindStringSubmatch(c); m != nil {
			terms = append(terms, fmt.Sprintf("CEq %s %s", coqStr(m[1]), m[2]))
		} else if m := reCondAny.FindStringSubmatch(c); m != nil {
			terms = append(terms, fmt.Sprintf("CAny %s %s", coqStr(m[1]), m[2]))
		} else if m := reCondNull.FindStringSubmatch(c); m != nil && m[1] == m[3] && m[2] == m[4] {
			terms = append(terms, fmt.Sprintf("CNullEq %s %s", coqStr(m[1]), m[2]))
		} else {
			return "", false
		}
	}
	return coqList(terms), true
}

// parseSQL turns the text of a generated statement into a Coq sstmt
func parseSQL(sql string) string {
	s := strings.Join(strings.Fields(sql), " ")
	if m := reInsert.FindStringSubmatch(s); m != nil {
		if phs, ok := coqNatList(splitList(m[3])); ok {
			return fmt.Sprintf("SInsert %s %s %s %s", coqStr(m[1]), coqStrList(splitList(m[2])), phs, coqStrList(splitList(m[4])))
		}
	}
	if m := reUpdate.FindStringSubmatch(s); m != nil {
		if phs, ok := coqNatList(splitList(m[3])); ok {
			return fmt.Sprintf("SUpdate %s %s %s %s %s %s", coqStr(m[1]), coqStrList(splitList(m[2])), phs, coqStr(m[4]), m[5], coqStrList(splitList(m[6])))
		}
	}
	if m := reDelete.FindStringSubmatch(s); m != nil {
		if conds, ok := coqConds(m[2]); ok {
			return fmt.Sprintf("SDelete %s %s %s", coqStr(m[1]), conds, coqStrList(splitList(m[3])))
		}
	}
	if m := reSelect.FindStringSubmatch(s); m != nil {
		if conds, ok := coqConds(m[3]); ok {
			return fmt.Sprintf("SSelect %s %s %s", coqStrList(splitList(m[1])), coqStr(m[2]), conds)
		}
	}
	return ""
}

func stringLit(e ast.Expr) (string, bool) {
	bl, ok := e.(*ast.BasicLit)
	if !ok || bl.Kind != token.STRING {
		return "", false
	}
	s, err := strconv.Unquote(bl.Value)
	return s, err == nil
}

// readCrud extracts, from the generated file, the statement of every function, its arguments, the scan function it feeds,
// and the destinations of every scanOne<T>.
func readCrud(src string) (funs []crudFun, scans map[string][]string, scanOrder []string, err error) {
	fset := token.NewFileSet()
	file, perr := parser.ParseFile(fset, "crud_gen.go", src, 0)
	if perr != nil {
		return nil, nil, nil, perr
	}
	scans = map[string][]string{}
	for _, d := range file.Decls {
		fd, ok := d.(*ast.FuncDecl)
		if !ok || fd.Body == nil {
			continue
		}
		name := fd.Name.Name
		if fd.Recv != nil && len(fd.Recv.List) == 1 {
			name = strings.TrimPrefix(types.ExprString(fd.Recv.List[0].Type), "*") + "." + name
		}
		var cur *crudFun
		scanCalled := ""
		ast.Inspect(fd.Body, func(n ast.Node) bool {
			call, ok := n.(*ast.CallExpr)
			if !ok {
				return true
			}
			if id, ok := call.Fun.(*ast.Ident); ok && strings.HasPrefix(id.Name, "Scan") && scanCalled == "" {
				scanCalled = id.Name
			}
			sel, ok := call.Fun.(*ast.SelectorExpr)
			if !ok {
				return true
			}
			recv := types.ExprString(sel.X)
			switch {
			case sel.Sel.Name == "Exec" && recv == "db" && fd.Recv == nil && len(call.Args) >= 1:
				// a top-level function running db.Exec is a custom query (gomacro:QUERY): decided by C16
				return true
			case (sel.Sel.Name == "Query" || sel.Sel.Name == "QueryRow" || sel.Sel.Name == "Exec") && (recv == "tx" || recv == "db") && len(call.Args) >= 1:
				sql, ok := stringLit(call.Args[0])
				f := crudFun{Name: name, SQL: sql}
				if ok {
					f.Stmt = parseSQL(sql)
				}
				for _, a := range call.Args[1:] {
					f.Args = append(f.Args, types.ExprString(a))
				}
				funs = append(funs, f)
				cur = &funs[len(funs)-1]
			case sel.Sel.Name == "Prepare" && len(call.Args) == 1:
				if in, ok := call.Args[0].(*ast.CallExpr); ok && types.ExprString(in.Fun) == "pq.CopyIn" && len(in.Args) >= 1 {
					table, _ := stringLit(in.Args[0])
					var cols []string
					for _, a := range in.Args[1:] {
						c, _ := stringLit(a)
						cols = append(cols, c)
					}
					funs = append(funs, crudFun{Name: name, SQL: "COPY " + table, Stmt: fmt.Sprintf("SCopyIn %s %s", coqStr(table), coqStrList(cols))})
					cur = &funs[len(funs)-1]
				}
			case sel.Sel.Name == "Exec" && recv == "stmt" && len(call.Args) > 0 && cur != nil:
				for _, a := range call.Args {
					cur.Args = append(cur.Args, types.ExprString(a))
				}
			case sel.Sel.Name == "Scan" && recv == "row" && strings.HasPrefix(name, "scanOne"):
				var fields []string
				for _, a := range call.Args {
					fields = append(fields, strings.TrimPrefix(types.ExprString(a), "&item."))
				}
				t := strings.TrimPrefix(name, "scanOne")
				scans[t] = fields
				scanOrder = append(scanOrder, t)
			}
			return true
		})
		if cur != nil {
			// the statement of this function is the last one appended for it
			for i := range funs {
				if funs[i].Name == name {
					funs[i].Scan = scanCalled
				}
			}
		}
	}
	return funs, scans, scanOrder, nil
}

// ---- reader of the schema ----

var (
	reSetDefault = regexp.MustCompile(`ALTER TABLE (\w+) ALTER COLUMN (\w+) SET DEFAULT`)
	reAddUnique  = regexp.MustCompile(`(?i)ALTER TABLE (\w+) ADD (?:UNIQUE|PRIMARY KEY)\s?\(([^)]*)\)`)
)

func coqSchema(text string) string {
	sc := readSQLScript(text)
	defaults := map[string]bool{}
	for _, m := range reSetDefault.FindAllStringSubmatch(text, -1) {
		defaults[m[1]+"."+m[2]] = true
	}
	uniques := map[string][]string{}
	for _, m := range reAddUnique.FindAllStringSubmatch(text, -1) {
		uniques[m[1]] = append(uniques[m[1]], coqStrList(splitList(m[2])))
	}
	var tables []string
	for _, t := range sc.Tables {
		var cols []string
		for _, c := range t.Columns {
			parts := strings.SplitN(c, " ", 2)
			rest := ""
			if len(parts) == 2 {
				rest = parts[1]
			}
			cols = append(cols, fmt.Sprintf("{| sc_name := %s; sc_serial := %s; sc_notnull := %s; sc_default := %s |}",
				coqStr(parts[0]), coqBool(strings.HasPrefix(rest, "serial")), coqBool(strings.Contains(rest, "NOT NULL") || strings.Contains(rest, "PRIMARY KEY")), coqBool(defaults[t.Name+"."+parts[0]])))
		}
		tables = append(tables, fmt.Sprintf("{| st_name := %s; st_cols := %s; st_uniques := %s |}", coqStr(t.Name), coqList(cols), coqList(uniques[t.Name])))
	}
	return coqListNL(tables)
}

func runC05(e *env) {
	e.m.Rule = "corpus + seeded synthesised model files (tables only in the analysed file; primary tables with the id at any position, link tables, foreign keys by id type / nullable wrapper / tag, guards, unexported fields, UNIQUE and _SELECT KEY directives): " +
		"the generated Go file is parsed (go/parser): SQL text of every Query/QueryRow/Exec/CopyIn call, argument expressions, scan function, destinations of scanOne<T>; every SQL text is parsed into the statement AST (any other text is reported) and compared function by function with the model; " +
		"each statement is checked in Coq against the schema read from the real SQL script (tables and columns exist up to case, placeholders are $1..$n for n arguments, written columns receive item.<their field>, unwritten columns have a default, result columns line up with the scan destinations); " +
		"run-time oracle: per module a test binary (source package + generated CRUD file + functional lib/pq stand-in) runs histories of the generated functions, called by reflection with random items (5-9 per table), over database/sql against an in-memory driver enforcing the schema of the generated script, and compares every result with a map model; " +
		"one evaluation = one generated function; non-trivial = function with a WHERE clause or a column list; oracle runs = calls of generated functions"
	e.m.Extra = map[string]interface{}{"mismatch_means": "model",
		"assumptions": []string{"github.com/lib/pq is replaced by a functional stand-in (text arrays, NullTime, CopyIn) written from its documented behaviour",
			"the in-memory driver returns bytes for jsonb / array / composite / bytea columns and canonical composite text, as lib/pq does; timestamps are whole seconds, floats are float32-representable (real columns)"}}
	specs := corpusCrud()
	for _, m := range repoFixtures("repo-sql-models") {
		m.Class = "update-single-column-row" // its Progression table has one column beside the id
		specs = append(specs, m)
	}
	n := 14
	if e.thorough() {
		n = 300
	}
	for i := 0; i < n; i++ {
		specs = append(specs, synthCrud(e.r, i))
	}
	obs := observeAll(specs, "sql,sqlcrud,tables,gounions", 14)
	// the run-time oracle: histories of the generated functions over the in-memory schema-enforcing driver
	samples := 5
	if e.thorough() {
		samples = 9
	}
	bins := make([]*binResult, len(specs))
	{
		var wg sync.WaitGroup
		sem := make(chan struct{}, 8)
		for i, o := range obs {
			if o.LoadErr != "" || o.Outcome != "ok" || o.Gen["sql"].Outcome != "ok" || o.Gen["sqlcrud"].Outcome != "ok" || o.Gen["tables_json"].Outcome != "ok" {
				continue
			}
			if specs[i].ModPath != "example.com/org/models" || o.Gen["gounions"].Outcome != "ok" {
				continue // the repository fixtures are not at the root of their module
			}
			wg.Add(1)
			sem <- struct{}{}
			go func(i int, o *obsResult) {
				defer wg.Done()
				defer func() { <-sem }()
				bins[i] = runTestBinaryX(specs[i], o, e.seed+int64(i), samples, false,
					&crudOpts{CrudText: o.Gen["sqlcrud"].Text, Script: o.Gen["sql"].Text, SpecJSON: o.Gen["tables_json"].Text})
			}(i, o)
		}
		wg.Wait()
	}
	crudOps := 0
	for i, r := range bins {
		if r == nil {
			continue
		}
		spec := specs[i]
		if r.BuildErr != "" {
			e.m.count("oracle_binary_does_not_build")
			e.m.sampleErr(spec.Name + ": " + r.BuildErr)
			continue
		}
		e.m.count("oracle_binary_ran")
		if r.RunErr != "" {
			e.m.fail(oracleFailure{What: "the CRUD oracle binary died: " + r.RunErr, Input: spec, Class: spec.Class})
		}
		for _, rec := range r.Records {
			switch rec.Kind {
			case "crud-summary":
				n, _ := strconv.Atoi(rec.Msg)
				crudOps += n
				e.m.OracleRuns += n
			case "crud":
				cls := ""
				switch {
				case strings.Contains(rec.Msg, "multiple-column UPDATE item"):
					cls = "update-single-column-row"
				case strings.Contains(rec.Msg, "empty WHERE"):
					cls = "link-table-without-foreign-key"
				}
				e.m.fail(oracleFailure{What: "run-time oracle, table " + rec.Type + ": " + rec.Msg, Input: spec, Class: cls})
			}
		}
	}
	e.m.Extra["oracle_calls_of_generated_functions"] = crudOps

	// the CHECK of a jsonb column calls a validator function of the script: the documents the generated code wrote are
	// evaluated against the validators read back from the script, in Coq (the machinery of C04), and the validators are
	// compared with their model
	{
		var vcases []string
		var vinputs []interface{}
		for i, r := range bins {
			if r == nil || r.BuildErr != "" {
				continue
			}
			o, spec := obs[i], specs[i]
			if o.Gen["sql"].Outcome != "ok" {
				continue
			}
			var docs []string
			for _, rec := range r.Records {
				if rec.Kind != "jsonb-doc" {
					continue
				}
				if j, err := coqJSON(json.RawMessage(rec.JSON)); err == nil {
					docs = append(docs, fmt.Sprintf("(%s, %s, %s)", coqStr(rec.Type), coqStr(rec.Msg), j))
				}
			}
			if len(docs) == 0 {
				continue
			}
			ps := readValidators(o.Gen["sql"].Text)
			if len(ps.Unparsed) > 0 {
				continue // reported by C04
			}
			e.m.count("modules_with_jsonb_documents")
			e.m.Evaluations += len(docs)
			vcases = append(vcases, fmt.Sprintf("{| c4_prog := %s;\n c4_enums := %s;\n c4_ana := %s;\n c4_funs := %s;\n c4_checks := %s;\n c4_docs := %s |}",
				o.Facts, o.Enums, o.Ana, coqListNL(ps.Funs), coqListNL(ps.Checks), coqListNL(docs)))
			vinputs = append(vinputs, map[string]interface{}{"module": spec, "script": o.Gen["sql"].Text, "class": spec.Class, "stage": "jsonb CHECK constraints of the inserted rows"})
			if len(vcases) == 2 {
				e.writeCases2(fmt.Sprintf("cases_C05v_%d", len(e.m.CaseFiles)), anaHeader+"From GM Require Import Sem.GoJson Sem.PgSem Model.SqlJson Corr.Check_C04.\n", "mismatches", "prop_failures", vcases, vinputs)
				vcases, vinputs = nil, nil
			}
		}
		if len(vcases) > 0 {
			e.writeCases2(fmt.Sprintf("cases_C05v_%d", len(e.m.CaseFiles)), anaHeader+"From GM Require Import Sem.GoJson Sem.PgSem Model.SqlJson Corr.Check_C04.\n", "mismatches", "prop_failures", vcases, vinputs)
		}
	}

	var cases []string
	var inputs []interface{}
	flush := func() {
		if len(cases) > 0 {
			e.detailFn = "details"
			e.writeCases2(fmt.Sprintf("cases_C05_%d", len(e.m.CaseFiles)), anaHeader+"From GM Require Import Model.Crud Corr.Check_C05.\n", "mismatches", "prop_failures", cases, inputs)
			cases, inputs = nil, nil
		}
	}
	for i, o := range obs {
		spec := specs[i]
		if o.LoadErr != "" {
			e.m.count("load_error")
			e.m.sampleErr(spec.Name + ": " + o.LoadErr)
			// an input of the harness that is not a well-typed package is a defect of the harness, not a silent skip
			e.m.fail(oracleFailure{What: "the input module " + spec.Name + " does not load (harness input not well-typed): " + o.LoadErr, Input: spec, NoInput: true})
			continue
		}
		if o.Outcome != "ok" {
			e.m.count("analysis_" + o.Outcome)
			e.m.sampleErr(spec.Name + ": " + o.Msg)
			continue
		}
		gs, gc, gt := o.Gen["sql"], o.Gen["sqlcrud"], o.Gen["tables"]
		e.m.count("sql_" + gs.Outcome)
		e.m.count("sqlcrud_" + gc.Outcome)
		if gs.Outcome != "ok" || gc.Outcome != "ok" || gt.Outcome != "ok" {
			e.m.sampleErr(spec.Name + ": " + gs.Msg + " | " + gc.Msg + " | " + gt.Msg)
			if gc.Outcome == "crash" || gs.Outcome == "crash" {
				e.m.fail(oracleFailure{What: "a generator dies on a model file: " + gs.Msg + gc.Msg, Input: spec, Class: spec.Class})
			}
			continue
		}
		funs, scans, order, err := readCrud(gc.Text)
		if err != nil {
			cls := spec.Class
			if strings.Contains(gc.Text, "`,, item.") || strings.Contains(strings.Join(strings.Fields(gc.Text), " "), "`, , item.") || strings.Contains(strings.Join(strings.Fields(gc.Text), " "), "`,, item.") {
				cls = "table-with-only-an-id" // QueryRow(`...`, , item.Id): no column beside the id
			}
			e.m.fail(oracleFailure{What: "the generated CRUD file does not parse: " + err.Error(), Input: spec, Class: cls})
			continue
		}
		var fitems []string
		for _, f := range funs {
			if f.Stmt == "" {
				e.m.fail(oracleFailure{What: "the CRUD file holds a statement outside the generated forms (reader): " + f.Name + ": " + f.SQL, Input: spec, NoInput: true, Class: spec.Class})
				continue
			}
			e.m.Evaluations++
			if strings.Contains(f.SQL, "WHERE") || strings.Contains(f.SQL, "(") {
				e.m.Nontrivial++
			}
			e.m.count("stmt_" + strings.Fields(f.Stmt)[0])
			fitems = append(fitems, fmt.Sprintf("{| gf_name := %s; gf_stmt := %s; gf_args := %s; gf_scan := %s |}", coqStr(f.Name), f.Stmt, coqStrList(f.Args), coqStr(f.Scan)))
		}
		var sitems []string
		for _, t := range order {
			sitems = append(sitems, fmt.Sprintf("(%s, %s)", coqStr(t), coqStrList(scans[t])))
		}
		e.m.sample(map[string]interface{}{"module": spec.Name, "functions": len(funs), "tables": len(order)})
		mkCase := func(mode int) string {
			return fmt.Sprintf("{| c5_prog := %s;\n c5_enums := %s;\n c5_ana := %s;\n c5_tables := %s;\n c5_funs := %s;\n c5_scans := %s;\n c5_schema := %s;\n c5_mode := %d |}",
				o.Facts, o.Enums, o.Ana, gt.Text, coqListNL(fitems), coqList(sitems), coqSchema(gs.Text), mode)
		}
		if spec.Class == "" {
			cases = append(cases, mkCase(0))
			inputs = append(inputs, map[string]interface{}{"module": spec, "crud": gc.Text, "sql": gs.Text, "class": ""})
		} else {
			// evaluated twice: everything but the recorded finding (no class: reported), then the finding alone (class: known)
			cases = append(cases, mkCase(1), mkCase(2))
			inputs = append(inputs, map[string]interface{}{"module": spec, "crud": gc.Text, "sql": gs.Text, "class": ""},
				map[string]interface{}{"module": spec, "crud": gc.Text, "sql": gs.Text, "class": spec.Class})
		}
		if len(cases) >= 3 {
			flush()
		}
	}
	flush()
}
