package main

import (
	"fmt"
)

func init() { commands["C12"] = runC12 }

func runC12(e *env) {
	e.m.Rule = "corpus modules (self / mutual recursion through slices, maps, arrays and pointers; named over named; time and date types; generic instantiations; stdlib and sub-package types; aliases; embedded structs; source order) " +
		"then seeded synthesised modules; one evaluation = one module: every position reachable from the file's declarations; non-trivial = the reached graph has at least 8 nodes; distinct = distinct sources"
	e.m.Extra = map[string]interface{}{"mismatch_means": "model"}
	specs := append(corpusGraph(), repoFixtures("repo-testsource-defs", "repo-testsource-other", "repo-sql-models")...)
	n := 24
	if e.thorough() {
		n = 300
	}
	prof := fullProfile()
	prof.TagsAll = false
	prof.Pointers = true
	for i := 0; i < n; i++ {
		specs = append(specs, synthModule(e.r, prof, i))
	}
	obs := observeAll(specs, "", 14)
	var cases []string
	var inputs []interface{}
	fileNo := 0
	flush := func() {
		if len(cases) > 0 {
			e.writeCases2(fmt.Sprintf("cases_C12_%d", fileNo), anaHeader+"From GM Require Import Model.Unions Model.Classify Corr.Check_C12.\n", "mismatches", "prop_failures", cases, inputs)
			fileNo++
			cases, inputs = nil, nil
		}
	}
	seen := map[string]bool{}
	for i, o := range obs {
		spec := specs[i]
		if o.LoadErr != "" {
			e.m.count("rejected_by_type_checker")
			e.m.Extra["last_rejected"] = spec.Name + ": " + o.LoadErr
			continue
		}
		e.m.Evaluations++
		e.m.count("analysis_" + o.Outcome)
		e.m.OracleRuns++
		if o.Outcome == "fatal" || o.Outcome == "crash" {
			e.m.fail(oracleFailure{What: "analysis of a well-typed supported package did not terminate normally: " + o.Msg, Input: spec})
			if o.Outcome == "fatal" {
				continue
			}
		}
		for k, v := range o.Kinds {
			e.m.Distribution["nodes_"+k] += v
		}
		for _, t := range spec.Tags {
			if t == "recursive" || t == "generic" || t == "named-time" || t == "embedded-struct" {
				e.m.count("modules_with_" + t)
			}
		}
		if !seen[spec.Files[0].Src] {
			seen[spec.Files[0].Src] = true
			if o.NumNodes >= 8 {
				e.m.Nontrivial++
			}
		}
		if o.NumNodes >= 8 {
			e.m.sample(map[string]interface{}{"module": spec.Name, "source": spec.Files[0].Src, "nodes": o.NumNodes, "kinds": o.Kinds})
		}
		cases = append(cases, fmt.Sprintf("{| c12_prog := %s;\n c12_source := %s;\n c12_ana := %s |}", o.Facts, o.Source, o.Ana))
		inputs = append(inputs, map[string]interface{}{"module": spec, "analysis_outcome": o.Outcome, "msg": o.Msg})
		if len(cases) == 4 {
			flush()
		}
	}
	flush()
}
