package main

import (
	"fmt"
	"go/ast"
	"go/parser"
	"go/token"
	"os"
	"path/filepath"
	"regexp"
	"strings"
	"sync"

	"golang.org/x/tools/go/packages"
	"golang.org/x/tools/imports"
)

func init() { commands["C01"] = runC01 }

const pqStub = `// Package pq stands in for github.com/lib/pq (not available offline): same exported API subset.
package pq

import (
	"database/sql/driver"
	"time"
)

type (
	Int64Array   []int64
	Int32Array   []int32
	StringArray  []string
	BoolArray    []bool
	Float64Array []float64
)

func (*Int64Array) Scan(src interface{}) error    { return nil }
func (Int64Array) Value() (driver.Value, error)   { return nil, nil }
func (*Int32Array) Scan(src interface{}) error    { return nil }
func (Int32Array) Value() (driver.Value, error)   { return nil, nil }
func (*StringArray) Scan(src interface{}) error   { return nil }
func (StringArray) Value() (driver.Value, error)  { return nil, nil }
func (*BoolArray) Scan(src interface{}) error     { return nil }
func (BoolArray) Value() (driver.Value, error)    { return nil, nil }
func (*Float64Array) Scan(src interface{}) error  { return nil }
func (Float64Array) Value() (driver.Value, error) { return nil, nil }

type NullTime struct {
	Time  time.Time
	Valid bool
}

func (*NullTime) Scan(src interface{}) error  { return nil }
func (NullTime) Value() (driver.Value, error) { return nil, nil }

func CopyIn(table string, columns ...string) string { return "" }
`

// withPQ returns a copy of the module with the lib/pq stand-in wired through a replace directive.
func withPQ(m *modSpec) *modSpec {
	c := *m
	c.Files = append([]modFile(nil), m.Files...)
	c.Files = append(c.Files, modFile{"pqstub/go.mod", "module github.com/lib/pq\n\ngo 1.21\n"}, modFile{"pqstub/pq.go", pqStub})
	return &c
}

var importsMu sync.Mutex

// typeCheckWith writes the generated text next to the analysed file, applies the import-fixing pass the tool
// itself applies to Go output (goimports = x/tools/imports.Process) and type-checks the package.
func typeCheckWith(m *modSpec, genName, text string) (errs []string, fixed string) {
	root, target := withPQ(m).materialize()
	// go.mod with the replace
	writeFile(filepath.Join(root, "go.mod"), "module "+m.ModPath+"\n\ngo 1.21\n\nrequire github.com/lib/pq v0.0.0\n\nreplace github.com/lib/pq => ./pqstub\n")
	file := filepath.Join(filepath.Dir(target), genName)
	importsMu.Lock()
	cwd, _ := os.Getwd()
	os.Chdir(filepath.Dir(target))
	out, err := imports.Process(file, []byte(text), &imports.Options{Comments: true, TabIndent: true, TabWidth: 8})
	os.Chdir(cwd)
	importsMu.Unlock()
	if err != nil {
		return []string{"goimports: " + err.Error()}, text
	}
	writeFile(file, string(out))
	cfg := &packages.Config{Dir: filepath.Dir(target), Mode: packages.NeedName | packages.NeedFiles | packages.NeedSyntax | packages.NeedTypes | packages.NeedImports | packages.NeedDeps | packages.NeedTypesInfo}
	pkgs, err := packages.Load(cfg, ".")
	if err != nil {
		return []string{"load: " + err.Error()}, string(out)
	}
	for _, p := range pkgs {
		for _, e := range p.Errors {
			errs = append(errs, strings.ReplaceAll(e.Error(), root+"/", ""))
		}
	}
	return errs, string(out)
}

func runC01(e *env) {
	e.m.Rule = "corpus + seeded synthesised modules from the supported declaration forms (structs with tags, named basics, ID types, enums with exported and unexported members, unions, arrays/slices/maps, time and date types, sql.Null* and look-alikes, embedded structs, generics, sub-package and stdlib types) " +
		"x the three Go generators x generate-sets on/off; for every output the tool accepts: goimports pass (x/tools/imports.Process) then go/types check of source package + generated file; " +
		"one evaluation = one (module, generator) pair whose generation succeeded; non-trivial = output declares at least 3 functions"
	e.m.Extra = map[string]interface{}{"mismatch_means": "property",
		"assumptions": []string{"github.com/lib/pq is replaced by a stand-in with the same exported API subset (the real module is not available offline)"}}
	specs := append(corpusGoGen(), repoFixtures("repo-testsource-defs")...)
	// the SQL models of the repository use structs with union fields declared in another package: gounions emits their
	// methods in the analysed package (recorded finding); sqlcrud and randdata are still checked on it
	for _, m := range repoFixtures("repo-sql-models") {
		m.Class = "methods-on-imported-types"
		specs = append(specs, m)
	}
	n := 10
	if e.thorough() {
		n = 150
	}
	for i := 0; i < n; i++ {
		prof := fullProfile()
		prof.TagsAll = false
		prof.SQL = true
		prof.ModShape = 0
		specs = append(specs, synthModule(e.r, prof, i))
	}
	obs := observeAll(specs, "gounions,randdata,sqlcrud,decls", 14)
	defer e.writeAnaCross("C01", specs, obs)
	type job struct {
		spec *modSpec
		tgt  string
		text string
	}
	var jobs []job
	for i, o := range obs {
		if o.LoadErr != "" {
			e.m.count("rejected_by_type_checker")
			e.m.Extra["last_rejected"] = specs[i].Name + ": " + o.LoadErr
			continue
		}
		if o.Outcome != "ok" {
			e.m.count("analysis_" + o.Outcome)
			continue
		}
		for _, tgt := range []string{"gounions", "randdata", "sqlcrud", "sqlcrud_sets"} {
			g := o.Gen[tgt]
			e.m.count(tgt + "_" + g.Outcome)
			if g.Outcome == "ok" {
				jobs = append(jobs, job{specs[i], tgt, g.Text})
			}
		}
	}
	// Coq cases: identifiers read back from the generated files
	var cases []string
	var inputs []interface{}
	for i, o := range obs {
		if o.LoadErr != "" || o.Outcome != "ok" {
			continue
		}
		var choices, receivers, declared []string
		caseClass := shadowClass(o)
		if specs[i].Class != "" {
			caseClass = "gounions:" + specs[i].Class
		}
		for _, tgt := range []string{"gounions", "randdata", "sqlcrud", "sqlcrud_sets"} {
			g := o.Gen[tgt]
			if g.Outcome != "ok" {
				continue
			}
			ids := readGoFile(g.Text)
			if ids == nil {
				continue // syntax errors are reported by the oracle
			}
			declared = append(declared, fmt.Sprintf("(%s, %s)", coqStr(tgt), coqStrList(ids.declared)))
			if tgt == "gounions" {
				seenID := map[string]bool{}
				for _, d := range ids.declared {
					if seenID[d] && strings.HasSuffix(d, "Kind") && inputHasKindCollision(o) {
						caseClass = "gounions:kind-constant-redeclared"
					}
					seenID[d] = true
				}
			}
			for _, r := range ids.receivers {
				receivers = append(receivers, fmt.Sprintf("(%s, %s)", coqStr(tgt), coqStr(r)))
			}
			if tgt == "randdata" {
				for _, n := range o.Nameds {
					if n.Kind == "KdEnum" && n.PkgPath == o.RootPkg {
						if ch, ok := ids.choix["rand"+n.Local]; ok {
							choices = append(choices, fmt.Sprintf("(%s, %s)", coqStr(n.ID), coqStrList(ch)))
						}
					}
				}
			}
		}
		gu := gounionsSkeleton(o)
		e.m.count("gounions_list_" + strings.ToLower(strings.TrimPrefix(strings.SplitN(strings.Trim(gu, "("), " ", 2)[0], "Gu")))
		rd := randdataSkeleton(o)
		e.m.count("randdata_list_" + strings.ToLower(strings.TrimPrefix(strings.SplitN(strings.Trim(rd, "("), " ", 2)[0], "Rd")))
		cases = append(cases, fmt.Sprintf("{| c1_ana := %s;\n c1_gu := %s;\n c1_rd := "+rd+";\n c1_prog := %s;\n c1_enums := %s;\n c1_choices := %s;\n c1_receivers := %s;\n c1_declared := %s |}",
			o.Ana, gu, o.Facts, o.Enums, coqList(choices), coqList(receivers), coqList(declared)))
		inputs = append(inputs, map[string]interface{}{"module": specs[i], "class": caseClass})
		if len(cases) == 6 {
			e.writeCases2(fmt.Sprintf("cases_C01_%d", len(e.m.CaseFiles)), factsHeader+"From GM Require Import Facts.Ana Model.Enums Model.GoScope Corr.Check_C01.\n", "mismatches", "prop_failures", cases, inputs)
			cases, inputs = nil, nil
		}
	}
	if len(cases) > 0 {
		e.writeCases2(fmt.Sprintf("cases_C01_%d", len(e.m.CaseFiles)), factsHeader+"From GM Require Import Facts.Ana Model.Enums Model.GoScope Corr.Check_C01.\n", "mismatches", "prop_failures", cases, inputs)
	}
	shadow := map[string]bool{}
	kindCollision := map[string]bool{}
	fidCollision := map[string]bool{}         // module -> two types of other packages get one randdata function name
	importedUnionPkgs := map[string][]string{} // module -> names of the other packages declaring a reached union
	for i, o := range obs {
		if shadowClass(o) != "" {
			shadow[specs[i].Name] = true
		}
		if inputHasKindCollision(o) {
			kindCollision[specs[i].Name] = true
		}
		seenFid := map[string]string{}
		for _, n := range o.Nameds {
			if n.PkgPath != o.RootPkg && !strings.Contains(n.ID, "[") {
				short := n.PkgName
				if len(short) > 3 {
					short = short[:3]
				}
				if prev, ok := seenFid[short+"_"+n.Local]; ok && prev != n.ID {
					fidCollision[specs[i].Name] = true
				}
				seenFid[short+"_"+n.Local] = n.ID
			}
		}
		for _, n := range o.Nameds {
			if n.Kind == "KdUnion" && n.PkgPath != o.RootPkg {
				importedUnionPkgs[specs[i].Name] = append(importedUnionPkgs[specs[i].Name], n.PkgName)
			}
		}
	}

	results := make([][]string, len(jobs))
	var wg sync.WaitGroup
	sem := make(chan struct{}, 12)
	for i, j := range jobs {
		wg.Add(1)
		sem <- struct{}{}
		go func(i int, j job) {
			defer wg.Done()
			defer func() { <-sem }()
			results[i], _ = typeCheckWith(j.spec, "zz_gomacro_"+j.tgt+".go", j.text)
		}(i, j)
	}
	wg.Wait()
	for i, j := range jobs {
		e.m.Evaluations++
		e.m.OracleRuns++
		if strings.Count(j.text, "func ") >= 3 {
			e.m.Nontrivial++
			e.m.sample(map[string]interface{}{"module": j.spec.Name, "generator": j.tgt, "functions": strings.Count(j.text, "func "), "type_errors": len(results[i])})
		}
		if len(results[i]) > 0 {
			cls := classifyCompileError(j.tgt, results[i][0])
			if strings.HasSuffix(cls, ":kind-constant-redeclared") && !kindCollision[j.spec.Name] {
				cls = j.tgt + ":other" // the recorded finding needs two unions sharing their first two letters and a member
			}
			if j.tgt == "gounions" && strings.HasSuffix(cls, ":other") {
				// the wrapper of an union declared in another package is expected in that package (<pkg>.<Union>Wrapper):
				// it exists only when gounions was run on that package too
				for _, pn := range importedUnionPkgs[j.spec.Name] {
					if regexp.MustCompile(`undefined: ` + regexp.QuoteMeta(pn) + `(\.\w+Wrapper)?$`).MatchString(results[i][0]) {
						cls = j.tgt + ":wrapper-of-an-imported-union"
					}
				}
			}
			if j.tgt == "randdata" && strings.HasSuffix(cls, ":other") && fidCollision[j.spec.Name] && strings.Contains(results[i][0], "cannot use rand") {
				cls = j.tgt + ":function-name-collision-across-packages"
			}
			if j.spec.Class != "" && j.tgt == "gounions" {
				cls = j.tgt + ":" + j.spec.Class
			}
			if shadow[j.spec.Name] && strings.HasSuffix(cls, ":other") {
				cls = j.tgt + ":embedded-field-shadowed"
			}
			e.m.fail(oracleFailure{What: fmt.Sprintf("%s output does not type-check with its package: %s", j.tgt, results[i][0]), Input: j.spec, Class: cls, Got: strings.Join(results[i], "\n")})
		}
	}
}

func classifyCompileError(tgt, msg string) string {
	switch {
	case strings.Contains(msg, "choix") || strings.Contains(msg, "expected operand") || strings.Contains(msg, "missing ',' before newline in composite literal"):
		return tgt + ":enum-choice-list"
	case strings.Contains(msg, "NewDateFrom") || strings.Contains(msg, ".Time undefined") || strings.Contains(msg, "has no field or method Time"):
		return tgt + ":date-helpers-missing"
	case strings.Contains(msg, "declared and not used: item"):
		return tgt + ":table-without-columns"
	case regexp.MustCompile(`undefined: \w+\.\w+ArrayToPQ`).MatchString(msg):
		return tgt + ":id-type-of-another-package"
	case strings.Contains(msg, "Kind redeclared"):
		return tgt + ":kind-constant-redeclared"
	case strings.Contains(msg, "redeclared"):
		return tgt + ":redeclared"
	case strings.Contains(msg, "s.Id undefined") || strings.Contains(msg, "target.Id undefined"):
		return tgt + ":id-field-spelling"
	case strings.Contains(msg, "invalid argument: index") || strings.Contains(msg, "cannot make"):
		return tgt + ":fixed-array-of-unions"
	}
	return tgt + ":other"
}

func corpusGoGen() []*modSpec {
	mk := func(name, src string, extra ...modFile) *modSpec {
		return &modSpec{Name: name, ModPath: "example.com/org/models", Target: "models.go",
			Files: append([]modFile{{"models.go", src}}, extra...)}
	}
	return []*modSpec{
		mk("go-enum-unexported-between", "package models\n\ntype E int\n\nconst (\n\tRed E = 0\n\tGreen E = 1\n\tdup E = 0\n)\n\ntype S struct{ V E }\n"),
		mk("go-enum-no-exported", "package models\n\ntype E int\n\nconst (\n\ta E = iota\n\tb\n)\n\ntype S struct{ V E }\n"),
		mk("go-fixed-array-of-unions", "package models\n\ntype U interface{ isU() }\ntype A struct{ X int }\nfunc (A) isU() {}\n\ntype Fixed [3]U\n\ntype S struct{ F Fixed }\n"),
		mk("go-id-upper-with-foreign-keys", "package models\n\nimport \"database/sql\"\n\ntype IdAuthor int64\ntype IdBook int64\ntype IdShelf int64\n\ntype Author struct {\n\tID IdAuthor\n\tName string\n}\n\ntype Shelf struct {\n\tId IdShelf\n\tLabel string\n}\n\ntype Book struct {\n\tID IdBook\n\tIdAuthor IdAuthor\n\tIdShelf IdShelf `gomacro-sql-on-delete:\"CASCADE\"`\n\tCoAuthor sql.NullInt64 `gomacro-sql-foreign:\"Author\"`\n\tTitle string\n}\n"),
		mk("go-imported-package-named-like-own", "package models\n\nimport shared \"example.com/org/models/shared/models\"\n\ntype IdOrder int64\n\ntype Order struct {\n\tId IdOrder\n\tStatus shared.Status\n\tCurrency shared.Currency\n\tHistory shared.Statuses\n}\n",
			modFile{"shared/models/models.go", "package models\n\ntype Status int\n\nconst (\n\tPending Status = iota + 1\n\tPaid\n\tShipped\n)\n\ntype Statuses []Status\n\ntype Currency string\n\nconst (\n\tEUR Currency = \"EUR\"\n\tUSD Currency = \"USD\"\n)\n"}),
		mk("go-unions-sharing-their-first-letter", "package models\n\ntype Shape interface{ isShape() }\ntype Style interface{ isStyle() }\ntype Circle struct{ R int }\ntype Square struct{ S int }\ntype Bold struct{ W int }\n\nfunc (Circle) isShape() {}\nfunc (Square) isShape() {}\nfunc (Circle) isStyle() {}\nfunc (Bold) isStyle() {}\n\ntype Drawing struct {\n\tShape Shape\n\tStyle Style\n}\n"),
		mk("go-id-type-of-another-package", "package models\n\nimport \"example.com/org/models/sub\"\n\ntype IdOrder int64\n\ntype Order struct {\n\tId IdOrder\n\tCustomer sub.SubID\n\tNote string\n}\n", modFile{"sub/sub.go", "package sub\n\ntype SubID int64\n"}),
		mk("go-id-upper", "package models\n\ntype IdT int64\n\ntype T struct {\n\tID IdT\n\tName string\n}\n\ntype Link struct {\n\tIdT IdT\n\tV int\n}\n"),
		mk("go-tables-basic", "package models\n\ntype IdA int64\ntype IdB int64\n\n// gomacro:SQL ADD UNIQUE(Name)\ntype A struct {\n\tId IdA\n\tName string\n\tN int\n}\n\ntype B struct {\n\tId IdB\n\tIdA IdA `gomacro-sql-on-delete:\"CASCADE\"`\n\tOpt OptA\n\tTags []string\n\tFlags [3]bool\n}\n\ntype OptA struct {\n\tValid bool\n\tId IdA\n}\n\n// gomacro:SQL ADD UNIQUE(IdA, IdB)\ntype LinkAB struct {\n\tIdA IdA\n\tIdB IdB\n}\n"),
		mk("go-unions-shared-prefix", "package models\n\ntype Shape1 interface{ is1() }\ntype Shape2 interface{ is2() }\n\ntype A struct{ X int }\n\nfunc (A) is1() {}\nfunc (A) is2() {}\n\ntype S struct {\n\tV1 Shape1\n\tV2 Shape2\n}\n"),
		mk("go-embedded-shadowed-field", "package models\n\ntype Base struct{ F0 []int }\n\ntype T struct {\n\tBase\n\tF0 int16\n}\n"),
		mk("go-enum-array-columns", "package models\n\ntype Color uint8\n\nconst (\n\tRed Color = iota\n\tGreen\n)\n\ntype Big int64\n\nconst (\n\tB0 Big = iota\n\tB1\n)\n\ntype Small int16\n\nconst (\n\tS0 Small = iota\n\tS1\n)\n\ntype Colors []Color\ntype Bigs []Big\ntype Smalls []Small\ntype Pair [2]Color\ntype Flags []bool\ntype Names []string\ntype Ratios []float64\ntype Ints []int\ntype Int32s []int32\n\ntype T struct {\n\tId int64\n\tC Colors\n\tB Bigs\n\tS Smalls\n\tP Pair\n\tF Flags\n\tN Names\n\tR Ratios\n\tI Ints\n\tJ Int32s\n}\n"),
		mk("go-link-nullable-unique-key", "package models\n\nimport \"database/sql\"\n\ntype IdBadge int64\ntype IdUser int64\n\ntype OptUser struct {\n\tValid bool\n\tId IdUser\n}\n\ntype Badge struct {\n\tId IdBadge\n\tName string\n}\n\ntype User struct {\n\tId IdUser\n\tName string\n}\n\n// gomacro:SQL ADD UNIQUE(Holder)\n// gomacro:SQL ADD UNIQUE(IdBadge)\ntype BadgeOwner struct {\n\tIdBadge IdBadge\n\tHolder sql.NullInt64 `gomacro-sql-foreign:\"User\"`\n\tOwner OptUser `gomacro-sql-foreign:\"User\"`\n}\n\n// gomacro:SQL ADD UNIQUE(Owner)\ntype Medal struct {\n\tId int64\n\tOwner OptUser `gomacro-sql-foreign:\"User\"`\n\tIdBadge IdBadge\n}\n"),
		mk("go-date-column", "package models\n\nimport \"time\"\n\ntype Date time.Time\ntype Moment time.Time\n\ntype T struct {\n\tId int64\n\tD Date\n\tM Moment\n\tT time.Time\n}\n"),
		mk("go-json-columns", "package models\n\ntype Inner struct{ A string; B []int }\ntype L []Inner\ntype M map[string]int\n\ntype T struct {\n\tId int64\n\tI Inner\n\tL L\n\tM M\n}\n"),
		mk("go-ignored-union-field-of-a-sibling-file", "package models\n\ntype T struct {\n\tA int\n\tS Shape `gomacro:\"ignore\"`\n}\n",
			modFile{"shapes.go", "package models\n\ntype Shape interface{ isShape() }\n\ntype Circle struct{ R int }\n\nfunc (Circle) isShape() {}\n"}),
		mk("go-ignored-union-field", "package models\n\ntype Shape interface{ isShape() }\n\ntype Circle struct{ R int }\n\nfunc (Circle) isShape() {}\n\ntype T struct {\n\tA int\n\tS Shape `gomacro:\"ignore\"`\n\tP *Shape `gomacro:\"ignore\"`\n}\n"),
		mk("go-select-keys-of-every-column-type", "package models\n\nimport \"time\"\n\ntype IdRoom int64\ntype Kind int\n\nconst (\n\tK0 Kind = iota\n\tK1\n)\n\ntype Label string\n\ntype Room struct {\n\tId IdRoom\n\tName string\n}\n\n// gomacro:SQL ADD UNIQUE(IdRoom, Start)\n// gomacro:SQL _SELECT KEY(Start)\n// gomacro:SQL _SELECT KEY(Kind)\n// gomacro:SQL _SELECT KEY(Label)\n// gomacro:SQL _SELECT KEY(Open, Ratio)\ntype Booking struct {\n\tId int64\n\tIdRoom IdRoom `gomacro-sql-foreign:\"Room\"`\n\tStart time.Time\n\tKind Kind\n\tLabel Label\n\tOpen bool\n\tRatio float64\n}\n"),
		mk("go-named-containers-of-an-imported-union", "package models\n\nimport \"example.com/org/models/sub\"\n\ntype L []sub.Shape\n\ntype M map[string]sub.Shape\n\ntype T struct {\n\tA int\n\tS L\n\tD M\n}\n", modFile{"sub/sub.go", "package sub\n\ntype Shape interface{ isShape() }\n\ntype Circle struct{ R int }\n\nfunc (Circle) isShape() {}\n"}),
		mk("go-struct-field-of-an-imported-union", "package models\n\nimport \"example.com/org/models/sub\"\n\ntype T struct {\n\tA int\n\tS sub.Shape\n}\n", modFile{"sub/sub.go", "package sub\n\ntype Shape interface{ isShape() }\n\ntype Circle struct{ R int }\n\nfunc (Circle) isShape() {}\n"}),
		mk("go-unexported-type-of-another-package", "package models\n\nimport \"example.com/org/models/sub\"\n\ntype S struct {\n\tV sub.Pub\n\tN int\n}\n", modFile{"sub/sub.go", "package sub\n\ntype hidden struct{ X int }\n\ntype level int\n\ntype Pub struct {\n\tH hidden\n\tL []hidden\n\tK level\n}\n"}),
		mk("go-packages-sharing-their-first-three-letters", "package models\n\nimport (\n\t\"example.com/org/models/shapes\"\n\t\"example.com/org/models/shared\"\n)\n\ntype S struct {\n\tA shapes.Circle\n\tB shared.Circle\n}\n",
			modFile{"shapes/shapes.go", "package shapes\n\ntype Circle struct{ R int }\n"}, modFile{"shared/shared.go", "package shared\n\ntype Circle struct{ Name string }\n"}),
		mk("go-subpackage-types", "package models\n\nimport \"example.com/org/models/sub\"\n\ntype T struct {\n\tId int64\n\tE sub.E\n\tS sub.S\n\tL []sub.S\n}\n", modFile{"sub/sub.go", "package sub\n\ntype E int\n\nconst (\n\tEA E = iota\n\tEB\n)\n\ntype S struct{ X, Y int }\n"}),
	}
}

// a struct whose flattened field list repeats a Go field name: an embedded field is shadowed
func shadowClass(o *obsResult) string {
	for _, st := range o.Structs {
		seen := map[string]bool{}
		for _, f := range st.Fields {
			if seen[f.Name] {
				return "embedded-field-shadowed"
			}
			seen[f.Name] = true
		}
	}
	return ""
}

type goIdents struct {
	declared  []string            // top-level identifiers (funcs without receiver, types, consts, vars)
	receivers []string            // receiver base type names of the methods
	choix     map[string][]string // function name -> elements of `choix := [...]T{...}` when they are plain identifiers / selectors
}

func readGoFile(text string) *goIdents {
	fset := token.NewFileSet()
	f, err := parser.ParseFile(fset, "gen.go", text, 0)
	if err != nil {
		return nil
	}
	out := &goIdents{choix: map[string][]string{}}
	seenRecv := map[string]bool{}
	for _, d := range f.Decls {
		switch d := d.(type) {
		case *ast.FuncDecl:
			if d.Recv == nil {
				out.declared = append(out.declared, d.Name.Name)
				ast.Inspect(d, func(n ast.Node) bool {
					as, ok := n.(*ast.AssignStmt)
					if !ok || len(as.Lhs) != 1 || len(as.Rhs) != 1 {
						return true
					}
					if id, ok := as.Lhs[0].(*ast.Ident); !ok || id.Name != "choix" {
						return true
					}
					if cl, ok := as.Rhs[0].(*ast.CompositeLit); ok {
						els := []string{}
						plain := true
						for _, el := range cl.Elts {
							switch el := el.(type) {
							case *ast.Ident:
								els = append(els, el.Name)
							case *ast.SelectorExpr:
								els = append(els, el.Sel.Name)
							default:
								plain = false
							}
						}
						if plain {
							out.choix[d.Name.Name] = els
						}
					}
					return true
				})
			} else if len(d.Recv.List) == 1 {
				t := d.Recv.List[0].Type
				if st, ok := t.(*ast.StarExpr); ok {
					t = st.X
				}
				if id, ok := t.(*ast.Ident); ok && !seenRecv[id.Name] {
					seenRecv[id.Name] = true
					out.receivers = append(out.receivers, id.Name)
				}
			}
		case *ast.GenDecl:
			for _, sp := range d.Specs {
				switch sp := sp.(type) {
				case *ast.TypeSpec:
					out.declared = append(out.declared, sp.Name.Name)
				case *ast.ValueSpec:
					for _, n := range sp.Names {
						out.declared = append(out.declared, n.Name)
					}
				}
			}
		}
	}
	return out
}

// inputHasKindCollision: the input shows the shape of the recorded finding gounions:kind-constant-redeclared - two unions
// of one package whose names share their first two letters and that have a common member.
func inputHasKindCollision(o *obsResult) bool {
	var unions []namedObs
	for _, n := range o.Nameds {
		if n.Kind == "KdUnion" && len(n.Local) >= 2 {
			unions = append(unions, n)
		}
	}
	for i, a := range unions {
		for _, b := range unions[i+1:] {
			if a.ID == b.ID || a.PkgPath != b.PkgPath || a.Local[:2] != b.Local[:2] {
				continue
			}
			for _, x := range a.Members {
				for _, y := range b.Members {
					if x == y {
						return true
					}
				}
			}
		}
	}
	return false
}
