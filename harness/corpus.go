package main

// Hand-written corpus modules: the inputs of DESIGN.md §3.4 and the repository's own fixture shapes.
// They run first in both tiers.

func corpusEnums() []*modSpec {
	mk := func(name, src string, extra ...modFile) *modSpec {
		m := &modSpec{Name: name, ModPath: "example.com/org/models", Target: "models.go",
			Files: append([]modFile{{"models.go", src}}, extra...)}
		return m
	}
	return []*modSpec{
		mk("enum-dup-values", "package models\n\ntype Color uint8\n\nconst (\n\tRed Color = 0\n\tGreen Color = 1\n\tBlue Color = 1\n)\n\ntype S struct{ C Color }\n"),
		mk("enum-multi-name", "package models\n\ntype K int\n\nconst KA, KB K = 0, 1\n\ntype S struct{ V K }\n"),
		mk("enum-unexported-between", "package models\n\ntype E int\n\nconst (\n\tRed E = 0\n\tGreen E = 1\n\tdup E = 0\n)\n\ntype S struct{ V E }\n"),
		mk("enum-iota-block", "package models\n\ntype E int\n\nconst (\n\tA E = iota // first\n\tB // second\n\tC\n)\n\ntype S struct{ V E }\n"),
		mk("enum-no-exported", "package models\n\ntype E int\n\nconst (\n\ta E = iota\n\tb\n)\n\ntype S struct{ V E }\n"),
		mk("enum-big", "package models\n\ntype E uint64\n\nconst (\n\tA E = 0\n\tB E = 18446744073709551615\n)\n\ntype S struct{ V E }\n"),
		mk("enum-negative", "package models\n\ntype E int\n\nconst (\n\tA E = -1\n\tB E = 0\n\tC E = 1\n)\n\ntype S struct{ V E }\n"),
		mk("enum-optout-some", "package models\n\ntype E int\n\nconst (\n\tA E = 0\n\tB E = 1\n\tMax E = 99 // gomacro:no-enum\n)\n\ntype S struct{ V E }\n"),
		mk("enum-sibling-file", "package models\n\ntype S struct{ V E }\n", modFile{"enums.go", "package models\n\ntype E string\n\nconst (\n\tX E = \"x\" // the x\n\tY E = \"y\"\n)\n"}),
		mk("enum-alias-typed", "package models\n\ntype E int\ntype A = E\n\nconst (\n\tX A = 0\n\tY E = 1\n)\n\ntype S struct{ V E }\n"),
		mk("enum-subpackage", "package models\n\nimport \"example.com/org/models/sub\"\n\ntype E int\n\nconst (\n\tA E = iota\n\tB\n)\n\ntype S struct {\n\tV E\n\tW sub.E\n}\n",
			modFile{"sub/sub.go", "package sub\n\ntype E int\n\nconst (\n\tP E = iota + 3\n\tQ\n)\n"}),
	}
}

func corpusUnions() []*modSpec {
	mk := func(name, src string, extra ...modFile) *modSpec {
		return &modSpec{Name: name, ModPath: "example.com/org/models", Target: "models.go",
			Files: append([]modFile{{"models.go", src}}, extra...)}
	}
	return []*modSpec{
		mk("union-basic", "package models\n\ntype U interface{ isU() }\n\ntype A struct{ X int }\ntype B struct{ Y string }\ntype N int\n\nfunc (A) isU() {}\nfunc (B) isU() {}\nfunc (N) isU() {}\n\ntype S struct {\n\tV U\n\tL []U\n}\n"),
		mk("union-pointer-receiver", "package models\n\ntype U interface{ isU() }\n\ntype A struct{ X int }\ntype P struct{ Y int }\n\nfunc (A) isU() {}\nfunc (*P) isU() {}\n\ntype S struct{ V U; Q P }\n"),
		mk("union-two-unions-one-member", "package models\n\ntype U1 interface{ is1() }\ntype U2 interface{ is2() }\n\ntype A struct{ X int }\ntype B struct{ Y int }\n\nfunc (A) is1() {}\nfunc (A) is2() {}\nfunc (B) is2() {}\n\ntype S struct {\n\tV1 U1\n\tV2 U2\n}\n\ntype T struct{ Only U1 }\n"),
		mk("union-not-analysed", "package models\n\ntype U1 interface{ is1() }\ntype U2 interface{ is2() }\n\ntype A struct{ X int }\n\nfunc (A) is1() {}\nfunc (A) is2() {}\n\ntype S struct{ V1 U1 }\n", modFile{"other.go", "package models\n\ntype Hidden struct{ V U2 }\n"}),
		mk("union-through-alias", "package models\n\ntype U interface{ isU() }\n\ntype A struct{ X int }\n\nfunc (A) isU() {}\n\ntype AliasA = A\n\ntype S struct {\n\tDirect A\n\tVia AliasA\n\tV U\n}\n"),
		mk("union-alias-first", "package models\n\ntype U interface{ isU() }\n\ntype A struct{ X int }\n\nfunc (A) isU() {}\n\ntype AliasA = A\n\ntype S struct {\n\tVia AliasA\n\tDirect A\n\tV U\n}\n"),
		mk("union-empty-interface-named", "package models\n\ntype Any interface{}\n\ntype A struct{ X int }\ntype N int\n\ntype S struct{ V Any }\n"),
		mk("union-foreign-implementer", "package models\n\nimport \"example.com/org/models/sub\"\n\ntype U interface{ IsU() }\n\ntype A struct{ X int }\n\nfunc (A) IsU() {}\n\ntype S struct {\n\tV U\n\tF sub.F\n}\n",
			modFile{"sub/sub.go", "package sub\n\ntype F struct{ Z int }\n\nfunc (F) IsU() {}\n"}),
		mk("union-embedded-interface", "package models\n\ntype Base interface{ isBase() }\ntype Ext interface {\n\tBase\n\tisExt()\n}\n\ntype A struct{ X int }\ntype B struct{ Y int }\n\nfunc (A) isBase() {}\nfunc (B) isBase() {}\nfunc (B) isExt() {}\n\ntype S struct {\n\tV Base\n\tW Ext\n}\n"),
		mk("union-only-toplevel", "package models\n\ntype U interface{ isU() }\n\ntype A struct{ X int }\n\nfunc (A) isU() {}\n"),
		mk("union-map-value", "package models\n\ntype U interface{ isU() }\n\ntype A struct{ X int }\ntype L []int\n\nfunc (A) isU() {}\nfunc (L) isU() {}\n\ntype M map[string]U\n\ntype S struct{ D M }\n"),
	}
}

func corpusGraph() []*modSpec {
	mk := func(name, src string, extra ...modFile) *modSpec {
		return &modSpec{Name: name, ModPath: "example.com/org/models", Target: "models.go",
			Files: append([]modFile{{"models.go", src}}, extra...)}
	}
	return []*modSpec{
		mk("graph-self-recursive", "package models\n\ntype Tree struct {\n\tChildren []Tree\n\tByName map[string]Tree\n\tPair [2]*Tree\n}\n"),
		mk("graph-mutual", "package models\n\ntype A struct{ Bs []B }\ntype B struct{ As map[int]A; Self []B }\n"),
		mk("graph-named-over-named", "package models\n\ntype N1 int\ntype N2 N1\ntype L1 []N2\ntype L2 L1\ntype S struct {\n\tA N2\n\tB L2\n}\n"),
		mk("graph-time", "package models\n\nimport \"time\"\n\ntype MyDate time.Time\ntype Moment time.Time\ntype UpdateDay MyDate\n\ntype S struct {\n\tT time.Time\n\tD MyDate\n\tM Moment\n\tU UpdateDay\n\tL []time.Time\n}\n"),
		mk("graph-generic", "package models\n\ntype IdX int64\n\ntype S struct {\n\tA Generic[IdX]\n\tB Generic[int]\n\tC Generic[S2]\n}\n\ntype S2 struct{ V string }\n", modFile{"other.go", "package models\n\ntype Generic[T any] struct {\n\tV T\n\tValid bool\n}\n"}),
		mk("graph-stdlib", "package models\n\nimport (\n\t\"database/sql\"\n\t\"time\"\n)\n\ntype S struct {\n\tN sql.NullInt64\n\tS sql.NullString\n\tD time.Duration\n\tW time.Weekday\n}\n"),
		mk("graph-alias", "package models\n\ntype Real struct{ X int }\ntype Alias = Real\ntype AL = []Real\n\ntype S struct {\n\tA Alias\n\tB AL\n\tC Real\n}\n"),
		mk("graph-subpackage", "package models\n\nimport \"example.com/org/models/sub\"\n\ntype S struct {\n\tA sub.T\n\tB []sub.E\n\tC map[sub.ID]sub.T\n}\n", modFile{"sub/sub.go", "package sub\n\ntype ID int64\ntype E uint8\n\nconst (\n\tE1 E = iota\n\tE2\n)\n\ntype T struct {\n\tI ID\n\tE E\n\tInner []T\n}\n"}),
		mk("graph-arrays", "package models\n\ntype S struct {\n\tA [0]int\n\tB [3][2]string\n\tC [][]bool\n\tD map[string][]map[int]float64\n\tE []byte\n\tF [4]byte\n}\n"),
		mk("graph-embedded", "package models\n\ntype Base struct {\n\tID int64\n\tName string\n}\n\ntype Mid struct {\n\tBase\n\tLevel int\n}\n\ntype Top struct {\n\tMid\n\tExtra []Base\n}\n"),
		mk("graph-source-order", "package models\n\ntype Zed struct{ A int }\n\ntype Alpha struct{ Z Zed }\n\ntype (\n\tM2 int\n\tM1 string\n)\n\ntype Beta []Alpha\n", modFile{"other.go", "package models\n\ntype NotInFile struct{ X int }\n"}),
		mk("graph-pointer-fields", "package models\n\ntype S struct {\n\tP *int\n\tQ *S\n\tR []*S\n\tT **string\n}\n"),
	}
}

func corpusFields() []*modSpec {
	mk := func(name, src string, extra ...modFile) *modSpec {
		return &modSpec{Name: name, ModPath: "example.com/org/models", Target: "models.go",
			Files: append([]modFile{{"models.go", src}}, extra...)}
	}
	return []*modSpec{
		mk("tags-omitempty", "package models\n\ntype Inner struct{ Z int }\n\ntype T struct {\n\tID int64\n\tA int `json:\"x,omitempty\"`\n\tB string `json:\",omitempty\"`\n\tC bool `json:\"c\"`\n\tD Inner `json:\"d,omitempty\"`\n}\n\ntype Table struct {\n\tId int64\n\tData T\n}\n"),
		mk("tags-dash", "package models\n\ntype T struct {\n\tA int `json:\"-\"`\n\tB int `json:\"-,\"`\n\tC int `gomacro:\"ignore\"`\n\td int\n\tE int `xml:\"e\" json:\"ee\"`\n\tF int `json:\"ff\" xml:\"f\"`\n}\n\ntype Table struct {\n\tId int64\n\tData T\n}\n"),
		mk("tags-embedded", "package models\n\ntype Base struct {\n\tID int64\n\tName string `json:\"name\"`\n}\n\ntype T struct {\n\tBase\n\tExtra int\n}\n\ntype Table struct {\n\tId int64\n\tData T\n}\n"),
		mk("tags-embedded-tagged", "package models\n\ntype Inner struct{ A int }\n\ntype T struct {\n\tInner `json:\"inner\"`\n\tB int\n}\n\ntype Table struct {\n\tId int64\n\tData T\n}\n"),
		mk("tags-embedded-conflict", "package models\n\ntype X struct{ A int; B int }\ntype Y struct{ A int; C int }\n\ntype T struct {\n\tX\n\tY\n}\n\ntype Table struct {\n\tId int64\n\tData T\n}\n"),
		mk("tags-opaque", "package models\n\ntype R struct{ Children []R }\n\ntype T struct {\n\tF1 R `gomacro-opaque:\"dart\"`\n\tF2 R `gomacro-opaque:\"dart, typescript\"`\n\tF3 R `gomacro-opaque:\" typescript\"`\n\tF4 int `json:\"f4\" gomacro-opaque:\"typescript\"`\n}\n\ntype Table struct {\n\tId int64\n\tData T\n}\n"),
		mk("tags-invalid-name", "package models\n\ntype T struct {\n\tA int `json:\"a\\\\b\"`\n\tB int `json:\"ok\"`\n}\n"),
	}
}
