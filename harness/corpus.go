package main

// Hand-written corpus modules: the inputs of DESIGN.md §3.4 and the repository's own fixture shapes.
// They run first in both tiers.

func corpusEnums() []*modSpec {
	mk := func(name, src string, extra ...modFile) *modSpec {
		m := &modSpec{Name: name, ModPath: "example.com/org/models", Target: "models.go",
			Files: append([]modFile{{"models.go", src}}, extra...)}
		return m
	}
	return []*modSpec{
		{Name: "enum-in-the-root-package-of-the-module", ModPath: "example.com/shop", Target: "api/api.go",
			Files: []modFile{{"api/api.go", "package api\n\nimport \"example.com/shop\"\n\ntype Order struct {\n\tColor shop.Color\n\tUnit shop.Unit\n\tN int\n}\n"}, {"shop.go", "package shop\n\ntype Color int\n\nconst (\n\tRed Color = iota // the red\n\tGreen\n\tBlue\n)\n\ntype Unit string\n\nconst (\n\tKg Unit = \"kg\"\n\tPiece Unit = \"piece\"\n)\n"}}},
		mk("enum-dup-values", "package models\n\ntype Color uint8\n\nconst (\n\tRed Color = 0\n\tGreen Color = 1\n\tBlue Color = 1\n)\n\ntype S struct{ C Color }\n"),
		mk("enum-dup-and-gap", "package models\n\ntype Level int\n\nconst (\n\tLow Level = 0\n\tDefault Level = 0\n\tHigh Level = 2\n)\n\ntype Mode uint8\n\nconst (\n\tM0 Mode = 0\n\tM1 Mode = 1\n\tM1b Mode = 1\n\tM4 Mode = 4\n\tM4b Mode = 4\n)\n\ntype Gap int\n\nconst (\n\tG0 Gap = 0\n\tG2 Gap = 2\n)\n\ntype S struct {\n\tL Level\n\tM Mode\n\tG Gap\n}\n"),
		mk("enum-same-package-name", "package models\n\nimport (\n\tv1 \"example.com/org/models/v1/status\"\n\tv2 \"example.com/org/models/v2/status\"\n)\n\ntype S struct {\n\tA v1.Status\n\tB v2.Status\n\tC v2.Level\n}\n",
			modFile{"v1/status/status.go", "package status\n\ntype Status int\n\nconst (\n\tOn Status = iota // on\n\tOff\n)\n"},
			modFile{"v2/status/status.go", "package status\n\ntype Status int\n\nconst (\n\tIdle Status = iota\n\tBusy // busy\n\tDown\n)\n\ntype Level string\n\nconst (\n\tLow Level = \"low\"\n\tHigh Level = \"high\"\n)\n"}),
		mk("enum-constant-in-another-package", "package models\n\nimport (\n\t\"example.com/org/models/defaults\"\n\t\"example.com/org/models/kinds\"\n)\n\nvar _ = defaults.DefaultKind\n\ntype S struct {\n\tK kinds.Kind\n\tL []kinds.Kind\n}\n",
			modFile{"kinds/kinds.go", "package kinds\n\ntype Kind int\n\nconst (\n\tCircle Kind = iota\n\tSquare\n\tTriangle\n)\n"}, modFile{"defaults/defaults.go", "package defaults\n\nimport \"example.com/org/models/kinds\"\n\nconst DefaultKind = kinds.Square\n\nconst Other kinds.Kind = 7\n"}),
		mk("enum-constants-only-elsewhere", "package models\n\nimport (\n\t\"example.com/org/models/a\"\n\t\"example.com/org/models/b\"\n\t\"example.com/org/models/kinds\"\n)\n\nvar _ = a.A1\nvar _ = b.B1\n\ntype S struct{ K kinds.Kind }\n",
			modFile{"kinds/kinds.go", "package kinds\n\ntype Kind int\n"}, modFile{"a/a.go", "package a\n\nimport \"example.com/org/models/kinds\"\n\nconst A1 kinds.Kind = 1\n"},
			modFile{"b/b.go", "package b\n\nimport \"example.com/org/models/kinds\"\n\nconst B1 kinds.Kind = 2\nconst B2 kinds.Kind = 3\n"}),
		mk("enum-multi-name", "package models\n\ntype K int\n\nconst KA, KB K = 0, 1\n\ntype S struct{ V K }\n"),
		mk("enum-unexported-between", "package models\n\ntype E int\n\nconst (\n\tRed E = 0\n\tGreen E = 1\n\tdup E = 0\n)\n\ntype S struct{ V E }\n"),
		mk("enum-iota-block", "package models\n\ntype E int\n\nconst (\n\tA E = iota // first\n\tB // second\n\tC\n)\n\ntype S struct{ V E }\n"),
		mk("enum-no-exported", "package models\n\ntype E int\n\nconst (\n\ta E = iota\n\tb\n)\n\ntype S struct{ V E }\n"),
		mk("enum-big", "package models\n\ntype E uint64\n\nconst (\n\tA E = 0\n\tB E = 18446744073709551615\n)\n\ntype S struct{ V E }\n"),
		mk("enum-negative", "package models\n\ntype E int\n\nconst (\n\tA E = -1\n\tB E = 0\n\tC E = 1\n)\n\ntype S struct{ V E }\n"),
		mk("enum-multi-name-specs-with-comment", "package models\n\ntype Timeout int\n\nconst Short, Long Timeout = 1, 60 // gomacro:no-enum\n\ntype Kind int\n\nconst Alpha, Beta Kind = 0, 1 // shared label\n\ntype Level string\n\nconst (\n\tLow, High Level = \"l\", \"h\" // both\n\tMid Level = \"m\" // middle\n\tA, limit Level = \"a\", \"z\" // gomacro:no-enum\n)\n\ntype S struct {\n\tT Timeout\n\tK Kind\n\tL Level\n}\n"),
		mk("enum-optout-some", "package models\n\ntype E int\n\nconst (\n\tA E = 0\n\tB E = 1\n\tMax E = 99 // gomacro:no-enum\n)\n\ntype S struct{ V E }\n"),
		mk("enum-comments-above-constants", "package models\n\ntype State int\n\nconst (\n\t// Pending is the initial state\n\tPending State = iota\n\t// Running is set by the scheduler\n\tRunning\n\tDone // finished\n)\n\ntype Level int\n\nconst (\n\t// internal default, gomacro:no-enum would be read from a trailing comment only\n\tDefaultLevel Level = 3\n)\n\ntype Flag int\n\nconst (\n\t// the comment above mentions nothing special\n\tFlagA Flag = 1 // gomacro:no-enum\n\t// above\n\tFlagB Flag = 2\n)\n\ntype S struct {\n\tSt State\n\tL Level\n\tF Flag\n}\n"),
		mk("enum-sibling-file", "package models\n\ntype S struct{ V E }\n", modFile{"enums.go", "package models\n\ntype E string\n\nconst (\n\tX E = \"x\" // the x\n\tY E = \"y\"\n)\n"}),
		mk("enum-alias-typed", "package models\n\ntype E int\ntype A = E\n\nconst (\n\tX A = 0\n\tY E = 1\n)\n\ntype S struct{ V E }\n"),
		mk("enum-subpackage", "package models\n\nimport \"example.com/org/models/sub\"\n\ntype E int\n\nconst (\n\tA E = iota\n\tB\n)\n\ntype S struct {\n\tV E\n\tW sub.E\n}\n",
			modFile{"sub/sub.go", "package sub\n\ntype E int\n\nconst (\n\tP E = iota + 3\n\tQ\n)\n"}),
	}
}

func corpusUnions() []*modSpec {
	mk := func(name, src string, extra ...modFile) *modSpec {
		return &modSpec{Name: name, ModPath: "example.com/org/models", Target: "models.go",
			Files: append([]modFile{{"models.go", src}}, extra...)}
	}
	return []*modSpec{
		mk("union-basic", "package models\n\ntype U interface{ isU() }\n\ntype A struct{ X int }\ntype B struct{ Y string }\ntype N int\n\nfunc (A) isU() {}\nfunc (B) isU() {}\nfunc (N) isU() {}\n\ntype S struct {\n\tV U\n\tL []U\n}\n"),
		mk("union-pointer-receiver", "package models\n\ntype U interface{ isU() }\n\ntype A struct{ X int }\ntype P struct{ Y int }\n\nfunc (A) isU() {}\nfunc (*P) isU() {}\n\ntype S struct{ V U; Q P }\n"),
		mk("union-two-unions-one-member", "package models\n\ntype U1 interface{ is1() }\ntype U2 interface{ is2() }\n\ntype A struct{ X int }\ntype B struct{ Y int }\n\nfunc (A) is1() {}\nfunc (A) is2() {}\nfunc (B) is2() {}\n\ntype S struct {\n\tV1 U1\n\tV2 U2\n}\n\ntype T struct{ Only U1 }\n"),
		sameNamePackages(),
		mk("union-members-in-sibling-file", "package models\n\ntype Shape interface{ isShape() }\n\ntype Local struct{ L int }\n\nfunc (Local) isShape() {}\n\ntype Holder struct {\n\tS Shape\n\tAll []Shape\n}\n", modFile{"members.go", "package models\n\ntype Circle struct{ R int }\ntype Square struct{ S int }\n\nfunc (Circle) isShape() {}\nfunc (Square) isShape() {}\n"}),
		mk("union-not-analysed", "package models\n\ntype U1 interface{ is1() }\ntype U2 interface{ is2() }\n\ntype A struct{ X int }\n\nfunc (A) is1() {}\nfunc (A) is2() {}\n\ntype S struct{ V1 U1 }\n", modFile{"other.go", "package models\n\ntype Hidden struct{ V U2 }\n"}),
		mk("union-through-alias", "package models\n\ntype U interface{ isU() }\n\ntype A struct{ X int }\n\nfunc (A) isU() {}\n\ntype AliasA = A\n\ntype S struct {\n\tDirect A\n\tVia AliasA\n\tV U\n}\n"),
		mk("union-alias-first", "package models\n\ntype U interface{ isU() }\n\ntype A struct{ X int }\n\nfunc (A) isU() {}\n\ntype AliasA = A\n\ntype S struct {\n\tVia AliasA\n\tDirect A\n\tV U\n}\n"),
		withClass(mk("union-same-local-name", "package models\n\nimport (\n\t\"example.com/org/models/shapes\"\n\t\"example.com/org/models/ui\"\n)\n\ntype Circle struct{ Local bool }\n\ntype App struct {\n\tS shapes.Shape\n\tW ui.Circle\n\tL Circle\n\tC shapes.Circle\n}\n",
			modFile{"shapes/shapes.go", "package shapes\n\ntype Shape interface{ isShape() }\n\ntype Circle struct{ R int }\ntype Square struct{ S int }\n\nfunc (Circle) isShape() {}\nfunc (Square) isShape() {}\n"},
			modFile{"ui/ui.go", "package ui\n\ntype Circle struct{ Label string }\n\ntype Square int\n"}), "dart-same-class-name-in-two-packages"),
		mk("union-empty-interface-named", "package models\n\ntype Any interface{}\n\ntype A struct{ X int }\ntype N int\n\ntype S struct{ V Any }\n"),
		mk("union-foreign-implementer", "package models\n\nimport \"example.com/org/models/sub\"\n\ntype U interface{ IsU() }\n\ntype A struct{ X int }\n\nfunc (A) IsU() {}\n\ntype S struct {\n\tV U\n\tF sub.F\n}\n",
			modFile{"sub/sub.go", "package sub\n\ntype F struct{ Z int }\n\nfunc (F) IsU() {}\n"}),
		mk("union-embedded-interface", "package models\n\ntype Base interface{ isBase() }\ntype Ext interface {\n\tBase\n\tisExt()\n}\n\ntype A struct{ X int }\ntype B struct{ Y int }\n\nfunc (A) isBase() {}\nfunc (B) isBase() {}\nfunc (B) isExt() {}\n\ntype S struct {\n\tV Base\n\tW Ext\n}\n"),
		mk("union-only-toplevel", "package models\n\ntype U interface{ isU() }\n\ntype A struct{ X int }\n\nfunc (A) isU() {}\n"),
		mk("union-map-value", "package models\n\ntype U interface{ isU() }\n\ntype A struct{ X int }\ntype L []int\n\nfunc (A) isU() {}\nfunc (L) isU() {}\n\ntype M map[string]U\n\ntype S struct{ D M }\n"),
	}
}

func corpusGraph() []*modSpec {
	mk := func(name, src string, extra ...modFile) *modSpec {
		return &modSpec{Name: name, ModPath: "example.com/org/models", Target: "models.go",
			Files: append([]modFile{{"models.go", src}}, extra...)}
	}
	return []*modSpec{
		mk("graph-generic-named-containers", "package models\n\nimport \"example.com/org/models/lib\"\n\ntype S struct {\n\tA List[int]\n\tB List[string]\n\tC Dict[bool]\n\tD Pair[int]\n\tE lib.List[int]\n\tF lib.Dict[string]\n\tG []List[int]\n}\n",
			modFile{"other.go", "package models\n\ntype List[T any] []T\n\ntype Dict[V any] map[string]V\n\ntype Pair[T any] [2]T\n"},
			modFile{"lib/lib.go", "package lib\n\ntype List[T any] []T\n\ntype Dict[V any] map[string]V\n"}),
		mk("graph-aliases-in-the-analysed-file", "package models\n\ntype Point struct{ X, Y int }\n\ntype Coord = Point\n\ntype Ids = []int64\n\ntype Label = string\n\ntype S struct {\n\tC Coord\n\tI Ids\n\tL Label\n}\n"),
		mk("graph-union-of-non-struct-members", "package models\n\ntype U interface{ isU() }\n\ntype S struct {\n\tV U\n\tC Circle\n}\n",
			modFile{"members.go", "package models\n\ntype Kind int\n\nconst (\n\tK0 Kind = iota\n\tK1\n)\n\ntype Tags []string\ntype Count int\ntype ByName map[string]int\ntype Circle struct{ R int }\ntype Group struct{ Items []U }\n\nfunc (Kind) isU()   {}\nfunc (Tags) isU()   {}\nfunc (Count) isU()  {}\nfunc (ByName) isU() {}\nfunc (Circle) isU() {}\nfunc (Group) isU()  {}\n"}),
		mk("graph-embedded-struct-reached-through-its-own-union", "package models\n\ntype U interface{ isU() }\n\ntype A struct {\n\tX int\n\tV U\n}\n\nfunc (A) isU() {}\n\ntype B struct {\n\tA\n\tY int\n}\n\ntype C struct {\n\tB\n\tZ string `json:\"z\"`\n}\n"),
		mk("graph-self-recursive", "package models\n\ntype Tree struct {\n\tChildren []Tree\n\tByName map[string]Tree\n\tPair [2]*Tree\n}\n"),
		mk("graph-mutual", "package models\n\ntype A struct{ Bs []B }\ntype B struct{ As map[int]A; Self []B }\n"),
		mk("graph-recursive-containers", "package models\n\ntype Tree map[string]Tree\ntype MA map[string]MB\ntype MB map[int]MA\ntype Nest []Nest\ntype Deep map[string][]Deep\ntype Grid [2]Cells\ntype Cells []Grid\n\ntype S struct {\n\tT Tree\n\tA MA\n\tN Nest\n\tD Deep\n\tG Grid\n}\n"),
		mk("graph-named-over-named", "package models\n\ntype N1 int\ntype N2 N1\ntype L1 []N2\ntype L2 L1\ntype S struct {\n\tA N2\n\tB L2\n}\n"),
		mk("graph-time", "package models\n\nimport \"time\"\n\ntype MyDate time.Time\ntype Moment time.Time\ntype UpdateDay MyDate\n\ntype S struct {\n\tT time.Time\n\tD MyDate\n\tM Moment\n\tU UpdateDay\n\tL []time.Time\n}\n"),
		mk("graph-own-package-named-time", "package models\n\nimport (\n\t\"time\"\n\n\tmytime \"example.com/org/models/time\"\n)\n\ntype Event struct {\n\tStd time.Time\n\tAt mytime.Stamp\n\tDay mytime.Date\n\tStamps []mytime.Stamp\n\tByDay map[string]mytime.Date\n}\n\ntype Local time.Time\n",
			modFile{"time/time.go", "package time\n\nimport stdtime \"time\"\n\ntype Stamp stdtime.Time\n\ntype Date stdtime.Time\n"}),
		mk("graph-generic", "package models\n\ntype IdX int64\n\ntype S struct {\n\tA Generic[IdX]\n\tB Generic[int]\n\tC Generic[S2]\n}\n\ntype S2 struct{ V string }\n", modFile{"other.go", "package models\n\ntype Generic[T any] struct {\n\tV T\n\tValid bool\n}\n"}),
		mk("graph-stdlib", "package models\n\nimport (\n\t\"database/sql\"\n\t\"time\"\n)\n\ntype S struct {\n\tN sql.NullInt64\n\tS sql.NullString\n\tD time.Duration\n\tW time.Weekday\n}\n"),
		mk("graph-alias", "package models\n\ntype Real struct{ X int }\ntype Alias = Real\ntype AL = []Real\n\ntype S struct {\n\tA Alias\n\tB AL\n\tC Real\n}\n"),
		mk("graph-subpackage", "package models\n\nimport \"example.com/org/models/sub\"\n\ntype S struct {\n\tA sub.T\n\tB []sub.E\n\tC map[sub.ID]sub.T\n}\n", modFile{"sub/sub.go", "package sub\n\ntype ID int64\ntype E uint8\n\nconst (\n\tE1 E = iota\n\tE2\n)\n\ntype T struct {\n\tI ID\n\tE E\n\tInner []T\n}\n"}),
		mk("graph-arrays", "package models\n\ntype S struct {\n\tA [0]int\n\tB [3][2]string\n\tC [][]bool\n\tD map[string][]map[int]float64\n\tE []byte\n\tF [4]byte\n}\n"),
		mk("graph-embedded", "package models\n\ntype Base struct {\n\tID int64\n\tName string\n}\n\ntype Mid struct {\n\tBase\n\tLevel int\n}\n\ntype Top struct {\n\tMid\n\tExtra []Base\n}\n"),
		mk("graph-source-order", "package models\n\ntype Zed struct{ A int }\n\ntype Alpha struct{ Z Zed }\n\ntype (\n\tM2 int\n\tM1 string\n)\n\ntype Beta []Alpha\n", modFile{"other.go", "package models\n\ntype NotInFile struct{ X int }\n"}),
		mk("graph-pointer-fields", "package models\n\ntype S struct {\n\tP *int\n\tQ *S\n\tR []*S\n\tT **string\n}\n"),
	}
}

func corpusFields() []*modSpec {
	mk := func(name, src string, extra ...modFile) *modSpec {
		return &modSpec{Name: name, ModPath: "example.com/org/models", Target: "models.go",
			Files: append([]modFile{{"models.go", src}}, extra...)}
	}
	return []*modSpec{
		mk("tags-omitempty", "package models\n\ntype Inner struct{ Z int }\n\ntype T struct {\n\tID int64\n\tA int `json:\"x,omitempty\"`\n\tB string `json:\",omitempty\"`\n\tC bool `json:\"c\"`\n\tD Inner `json:\"d,omitempty\"`\n}\n\ntype Table struct {\n\tId int64\n\tData T\n}\n"),
		mk("tags-dash", "package models\n\ntype T struct {\n\tA int `json:\"-\"`\n\tB int `json:\"-,\"`\n\tC int `gomacro:\"ignore\"`\n\td int\n\tE int `xml:\"e\" json:\"ee\"`\n\tF int `json:\"ff\" xml:\"f\"`\n}\n\ntype Table struct {\n\tId int64\n\tData T\n}\n"),
		mk("tags-embedded", "package models\n\ntype Base struct {\n\tID int64\n\tName string `json:\"name\"`\n}\n\ntype T struct {\n\tBase\n\tExtra int\n}\n\ntype Table struct {\n\tId int64\n\tData T\n}\n"),
		mk("tags-embedded-tagged-with-its-own-name", "package models\n\ntype Inner struct {\n\tA int\n\tB string `json:\"b\"`\n}\n\ntype Other struct{ Z int }\n\ntype T struct {\n\tInner `json:\"Inner\"`\n\tX int\n}\n\ntype U struct {\n\tOther `json:\"Other,omitempty\"`\n\tY int\n}\n\ntype Table struct {\n\tId int64\n\tData T\n\tMore U\n}\n"),
		mk("tags-embedded-pointer", "package models\n\ntype Audit struct {\n\tAuthor string\n\tAt int `json:\"at\"`\n}\n\ntype Record struct {\n\t*Audit\n\tTitle string\n}\n\ntype Table struct {\n\tId int64\n\tData Record\n}\n"),
		mk("tags-embedded-struct-reached-through-its-own-union", "package models\n\ntype U interface{ isU() }\n\ntype A struct {\n\tX int\n\tV U\n}\n\nfunc (A) isU() {}\n\ntype B struct {\n\tA\n\tY int\n}\n\ntype C struct {\n\tB\n\tZ string `json:\"z\"`\n}\n"),
		mk("tags-embedded-tagged", "package models\n\ntype Inner struct{ A int }\n\ntype T struct {\n\tInner `json:\"inner\"`\n\tB int\n}\n\ntype Table struct {\n\tId int64\n\tData T\n}\n"),
		mk("tags-embedded-empty-name", "package models\n\ntype Base struct {\n\tID int64\n\tName string `json:\"name\"`\n}\n\ntype Other struct{ Z int }\n\ntype Third struct{ W int }\n\ntype T struct {\n\tBase `json:\",omitempty\"`\n\tOther `json:\"\"`\n\tThird `json:\",\"`\n\tExtra string\n}\n\ntype Table struct {\n\tId int64\n\tData T\n}\n"),
		mk("tags-embedded-conflict", "package models\n\ntype X struct{ A int; B int }\ntype Y struct{ A int; C int }\n\ntype T struct {\n\tX\n\tY\n}\n\ntype Table struct {\n\tId int64\n\tData T\n}\n"),
		mk("tags-opaque-with-json-name", "package models\n\ntype Payload struct{ A int }\n\ntype Event struct {\n\tID int `json:\"id\"`\n\tMeta Payload `json:\"meta_data\" gomacro-opaque:\"typescript\"`\n\tRaw Payload `gomacro-opaque:\"typescript\"`\n\tBoth Payload `json:\"both,omitempty\" gomacro-opaque:\"dart, typescript\"`\n\tComment string\n}\n\ntype Table struct {\n\tId int64\n\tData Event\n}\n"),
		mk("tags-all-fields-ignored", "package models\n\ntype Empty struct{}\n\ntype Marker struct {\n\ta int\n\tB int `json:\"-\"`\n\tC string `gomacro:\"ignore\"`\n}\n\ntype T struct {\n\tFlags []Marker\n\tOne Marker\n\tE Empty\n\tN int\n}\n\ntype Table struct {\n\tId int64\n\tData T\n}\n"),
		mk("tags-empty-struct-last", "package models\n\ntype Table struct {\n\tId int64\n\tData T\n}\n\ntype T struct {\n\tFlags []Marker\n\tOne Marker\n\tN int\n}\n\ntype Marker struct {\n}\n"),
		mk("tags-embedded-unexported-struct", "package models\n\ntype audit struct {\n\tCreatedBy string `json:\"created_by\"`\n\tVersion int\n\tsecret int\n}\n\ntype Document struct {\n\taudit\n\tID int `json:\"id\"`\n\tTitle string\n\tLabel string `json:\"label,omitempty\"`\n}\n\ntype Table struct {\n\tId int64\n\tData Document\n}\n"),
		mk("tags-opaque", "package models\n\ntype R struct{ Children []R }\n\ntype T struct {\n\tF1 R `gomacro-opaque:\"dart\"`\n\tF2 R `gomacro-opaque:\"dart, typescript\"`\n\tF3 R `gomacro-opaque:\" typescript\"`\n\tF4 int `json:\"f4\" gomacro-opaque:\"typescript\"`\n}\n\ntype Table struct {\n\tId int64\n\tData T\n}\n"),
		mk("tags-embedded-same-go-name-other-key", "package models\n\ntype Base struct {\n\tID int64\n\tName string `json:\"base_name\"`\n}\n\ntype Deep struct {\n\tBase\n\tPrice int\n}\n\ntype Item struct {\n\tBase\n\tName string `json:\"name\"`\n\tPrice int\n}\n\ntype Item2 struct {\n\tDeep\n\tPrice int `json:\"price2\"`\n\tName string `json:\"n2\"`\n}\n\ntype Table struct {\n\tId int64\n\tData Item\n\tMore Item2\n}\n"),
		mk("tags-invalid-name", "package models\n\ntype T struct {\n\tA int `json:\"a\\\\b\"`\n\tB int `json:\"ok\"`\n}\n"),
	}
}

func corpusCrash() []*modSpec {
	mk := func(name, mod, pkg, src string, extra ...modFile) *modSpec {
		return &modSpec{Name: name, ModPath: mod, Target: "models.go",
			Files: append([]modFile{{"models.go", "package " + pkg + "\n\n" + src}}, extra...)}
	}
	std := "example.com/org/models"
	return []*modSpec{
		mk("alias-declared-in-the-analysed-file", std, "models", "type Point struct{ X, Y int }\n\ntype Coord = Point\n\ntype Ids = []int64\n\ntype Label = string\n\ntype S struct {\n\tC Coord\n\tI Ids\n\tL Label\n}\n"),
		mk("alias-of-an-imported-type", std, "models", "import \"example.com/org/models/sub\"\n\ntype T = sub.T\n\ntype E = sub.E\n\ntype S struct {\n\tV T\n\tK E\n}\n", modFile{"sub/sub.go", "package sub\n\ntype T struct{ X int }\n\ntype E int\n\nconst (\n\tEA E = iota\n\tEB\n)\n"}),
		mk("one-letter-union", std, "models", "type U interface{ isU() }\ntype A struct{ X int }\nfunc (A) isU() {}\ntype S struct{ V U }\n"),
		mk("two-letter-union", std, "models", "type Un interface{ isU() }\ntype A struct{ X int }\nfunc (A) isU() {}\ntype S struct{ V Un }\n"),
		mk("short-subpackage-name", std, "models", "import \"example.com/org/models/ab\"\n\ntype S struct{ V ab.T; L []ab.T }\n", modFile{"ab/ab.go", "package ab\n\ntype T struct{ X int }\n"}),
		mk("one-letter-subpackage", std, "models", "import \"example.com/org/models/s\"\n\ntype S struct{ V s.T; E s.E }\n", modFile{"s/s.go", "package s\n\ntype T struct{ X int }\ntype E int\nconst (\n\tEA E = iota\n\tEB\n)\n"}),
		mk("short-package-name", "example.com/org/m", "m", "type U interface{ isU() }\ntype A struct{ X int }\nfunc (A) isU() {}\ntype S struct{ V U; L []int }\n"),
		mk("recursive-named-containers", std, "models", "type Tree map[string]Tree\ntype MA map[string]MB\ntype MB map[int]MA\ntype Nest []Nest\ntype Deep map[string][]Deep\n\ntype S struct {\n\tT Tree\n\tA MA\n\tN Nest\n\tD Deep\n}\n"),
		mk("nullable-wrapper-of-named-time", std, "models", "import \"time\"\n\ntype Birthday time.Time\ntype Date time.Time\n\ntype OptBirthday struct {\n\tValid bool\n\tDate Birthday\n}\n\ntype NullDate struct {\n\tD Date\n\tValid bool\n}\n\ntype Person struct {\n\tId int64\n\tB OptBirthday\n\tD NullDate\n}\n"),
		mk("multi-name-const", std, "models", "type K int\n\nconst KA, KB K = 0, 1\n\ntype S struct{ V K }\n"),
		mk("generic-basic-arg", std, "models", "type S struct {\n\tA Generic[int]\n\tB Generic[string]\n}\n", modFile{"other.go", "package models\n\ntype Generic[T any] struct {\n\tV T\n\tValid bool\n}\n"}),
		mk("generic-composite-arg", std, "models", "type S struct {\n\tA Generic[[]string]\n\tB Generic[map[string]int]\n\tC Generic[[2]int]\n}\n", modFile{"other.go", "package models\n\ntype Generic[T any] struct {\n\tV T\n\tValid bool\n}\n"}),
		mk("generic-two-args", std, "models", "type K int\ntype S struct {\n\tA Pair[K, string]\n\tB Pair[string, []K]\n}\n", modFile{"other.go", "package models\n\ntype Pair[A comparable, B any] struct {\n\tFirst A\n\tSecond B\n}\n"}),
		mk("grouped-types-without-doc", std, "models", "type (\n\tSolo struct {\n\t\tA int\n\t}\n)\n\ntype (\n\t// Documented has a comment\n\tDocumented struct {\n\t\tB string\n\t}\n\tPlain struct {\n\t\tC []Solo\n\t}\n\tCount int\n)\n\ntype S struct {\n\tX Solo\n\tY Documented\n\tZ Plain\n\tN Count\n}\n", modFile{"sub/sub.go", "package sub\n\ntype (\n\tInSub struct{ V int }\n)\n"}),
		mk("generic-named-arg", std, "models", "type IdX int64\ntype S struct {\n\tA Generic[IdX]\n}\n", modFile{"other.go", "package models\n\ntype Generic[T any] struct {\n\tV T\n\tValid bool\n}\n"}),
		mk("named-pointer", std, "models", "type T struct{ X int }\ntype P *T\ntype S struct{ V P }\n"),
		mk("self-pointer", std, "models", "type P *P\ntype S struct{ V P }\n"),
		mk("pointer-cycle-struct", std, "models", "type N struct{ Next *N }\n"),
		mk("enum-trailing-underscore", std, "models", "type Kind int\n\nconst (\n\tKind_ Kind = iota\n\tKind_B\n)\n\ntype S struct{ K Kind }\n"),
		mk("enum-one-letter-member", std, "models", "type E int\n\nconst (\n\tA E = iota\n\tB\n)\n\ntype S struct{ V E }\n"),
		mk("enum-no-exported-member", std, "models", "type E int\n\nconst (\n\ta E = iota\n\tb\n)\n\ntype S struct{ V E }\n"),
		mk("chan-field", std, "models", "type S struct{ C chan int }\n"),
		mk("func-field", std, "models", "type S struct{ F func() }\n"),
		mk("anon-struct-field", std, "models", "type S struct{ A struct{ X int } }\n"),
		mk("complex-field", std, "models", "type S struct{ Z complex128 }\n"),
		mk("empty-interface-field", std, "models", "type S struct{ V interface{}; W any }\n"),
		mk("foreign-interface-field", std, "models", "import \"fmt\"\n\ntype S struct{ V fmt.Stringer; E error }\n"),
		mk("anon-slice-of-union", std, "models", "type U interface{ isU() }\ntype A struct{ X int }\nfunc (A) isU() {}\ntype S struct{ L []U; M map[string]U }\n"),
		mk("type-param-in-file", std, "models", "type G[T any] struct{ V T }\ntype S struct{ A G[int] }\n"),
		mk("named-func-chan", std, "models", "type F func(int) string\ntype C chan bool\ntype S struct{ X int }\n"),
		mk("named-interface-no-member", std, "models", "type I interface{ M() }\ntype S struct{ V I }\n"),
		mk("uintptr-unsafe", std, "models", "import \"unsafe\"\n\ntype S struct{ U uintptr; P unsafe.Pointer }\n"),
		mk("array-of-slices", std, "models", "type S struct{ A [2][]int; B [3]map[string]int }\n"),
		mk("sql-unknown-enum-placeholder", std, "models", "type E int\nconst (\n\tEA E = iota\n)\n\n// gomacro:SQL ADD CHECK(V = #[Nope.EA])\ntype S struct {\n\tId int64\n\tV E\n}\n"),
		mk("sql-placeholder-not-enum", std, "models", "type N int\n\n// gomacro:SQL ADD CHECK(V = #[N.X])\ntype S struct {\n\tId int64\n\tV N\n}\n"),
		mk("sql-placeholder-unknown-member", std, "models", "type E int\nconst (\n\tEA E = iota\n)\n\n// gomacro:SQL ADD CHECK(V = #[E.Missing])\ntype S struct {\n\tId int64\n\tV E\n}\n"),
		mk("sql-select-key-unknown-column", std, "models", "// gomacro:SQL _SELECT KEY(Nope)\ntype S struct {\n\tId int64\n\tV int\n}\n"),
		mk("sql-unique-unknown-column", std, "models", "// gomacro:SQL ADD UNIQUE(Nope, V)\ntype S struct {\n\tId int64\n\tV int\n}\n"),
		mk("sql-unknown-comment-kind", std, "models", "// gomacro:WHATEVER x\ntype S struct {\n\tId int64\n}\n"),
		mk("sql-query-unknown-field", std, "models", "// gomacro:QUERY DoIt UPDATE S SET V = 1 WHERE Nope = $x$\ntype S struct {\n\tId int64\n\tV int\n}\n"),
		mk("sql-foreign-tag-bad-type", std, "models", "type S struct {\n\tId int64\n\tV string `gomacro-sql-foreign:\"T\"`\n}\ntype T struct{ Id int64 }\n"),
		mk("time-lookalike-struct", std, "models", "import \"time\"\n\ntype Fake struct {\n\twall uint64\n\text  int64\n\tloc  *time.Location\n}\n\ntype S struct{ F Fake }\n"),
		mk("empty-file-no-types", std, "models", "const X = 1\n"),
		mk("table-without-columns", std, "models", "type S struct{}\n"),
		mk("table-only-id", std, "models", "type S struct{ Id int64 }\n"),
	}
}

// sameNamePackages: two imported packages share their package name (api/models, db/models); unions and enums of both are used.
func sameNamePackages() *modSpec {
	mk := func(name, src string, extra ...modFile) *modSpec {
		return &modSpec{Name: name, ModPath: "example.com/org/models", Target: "models.go",
			Files: append([]modFile{{"models.go", src}}, extra...)}
	}
	return mk("two-packages-with-one-name", "package models\n\nimport (\n\tapimodels \"example.com/org/models/api/models\"\n\tdbmodels \"example.com/org/models/db/models\"\n)\n\ntype Holder struct {\n\tShape apimodels.Shape\n\tLevel apimodels.Level\n\tPaint dbmodels.Paint\n\tState dbmodels.State\n\tRef apimodels.Ref\n}\n",
		modFile{"api/models/models.go", "package models\n\nimport dbmodels \"example.com/org/models/db/models\"\n\ntype Shape interface{ isShape() }\ntype Circle struct{ R int }\ntype Square struct {\n\tS int\n\tP dbmodels.Paint\n}\n\nfunc (Circle) isShape() {}\nfunc (Square) isShape() {}\n\ntype Level int\n\nconst (\n\tLow Level = iota\n\tHigh\n)\n\n// a constant of a type of the other package named models\nconst NoID dbmodels.ID = -1\n\ntype Ref struct{ Of dbmodels.ID }\n"},
		modFile{"db/models/models.go", "package models\n\ntype Paint interface{ isPaint() }\ntype Oil struct{ V int }\ntype Water struct{ W string }\n\nfunc (Oil) isPaint() {}\nfunc (Water) isPaint() {}\n\ntype State string\n\nconst (\n\tOn State = \"on\"\n\tOff State = \"off\"\n)\n\n// no constant of ID is declared here\ntype ID int64\n"})
}
