// Command harness drives the implementation side of the correspondence checks:
// it runs gomacro (built from /repo's working tree, tag verif) on enumerated, random and
// corpus inputs and writes (a) Coq case files to be evaluated against the model and
// (b) a meta file describing what was run and what the direct oracles found.
package main

import (
	"encoding/json"
	"flag"
	"fmt"
	"io"
	"log"
	"os"
	"path/filepath"
	"sort"
	"strconv"
)

type oracleFailure struct {
	What   string      `json:"what"`             // one line
	Class  string      `json:"class,omitempty"`  // known-finding class, if the oracle can tell
	Input  interface{} `json:"input"`            // concrete failing input
	Expect string      `json:"expect,omitempty"` // expected
	Got    string      `json:"got,omitempty"`    // observed
	NoInput bool       `json:"no_input,omitempty"` // a broken reading of the artefact rather than a failing input
}

type meta struct {
	Property     string                 `json:"property"`
	Tier         string                 `json:"tier"`
	Seed         int64                  `json:"seed"`
	Evaluations  int                    `json:"evaluations"`
	Nontrivial   int                    `json:"distinct_nontrivial"`
	Rule         string                 `json:"rule"`
	Samples      []interface{}          `json:"samples"`
	Distribution map[string]int         `json:"distribution"`
	CaseFiles    []string               `json:"case_files"`
	Failures     []oracleFailure        `json:"oracle_failures"`
	OracleRuns   int                    `json:"oracle_runs"`
	Extra        map[string]interface{} `json:"extra,omitempty"`
}

func (m *meta) count(key string) {
	if m.Distribution == nil {
		m.Distribution = map[string]int{}
	}
	m.Distribution[key]++
}

func (m *meta) fail(f oracleFailure) { m.Failures = append(m.Failures, f) }

// sampleErr keeps the first messages of inputs that were not usable (so that a wasted generator shows in the evidence)
func (m *meta) sampleErr(msg string) {
	if m.Extra == nil {
		m.Extra = map[string]interface{}{}
	}
	l, _ := m.Extra["unusable_inputs"].([]string)
	if len(l) < 6 {
		if len(msg) > 300 {
			msg = msg[:300]
		}
		m.Extra["unusable_inputs"] = append(l, msg)
	}
}

func (m *meta) sample(x interface{}) {
	if len(m.Samples) < 5 {
		m.Samples = append(m.Samples, x)
	}
}

type env struct {
	tier   string
	seed   int64
	out    string // output directory for generated files
	replay string // optional replay path
	m      *meta
	r      *rng
	detailFn string // optional: a Coq function of the cases whose value is printed for the replays
}

func (e *env) thorough() bool { return e.tier == "thorough" }

// writeCases writes a Coq case file plus its JSON sidecar (inputs per index, for replays).
func (e *env) writeCases(name string, header string, coqCases []string, inputs []interface{}) {
	e.writeCasesFn(name, header, "mismatches", coqCases, inputs)
}

// writeCasesFn is writeCases with an explicit Coq checking function.
func (e *env) writeCasesFn(name string, header string, fn string, coqCases []string, inputs []interface{}) {
	e.writeCases2(name, header, fn, "", coqCases, inputs)
}

// writeCases2 also evaluates a model-independent property check [fnProp] on the observed artefacts.
func (e *env) writeCases2(name string, header string, fn string, fnProp string, coqCases []string, inputs []interface{}) {
	path := filepath.Join(e.out, name+".v")
	f, err := os.Create(path)
	check(err)
	fmt.Fprint(f, "From Coq Require Import NArith.\n")
	fmt.Fprint(f, header)
	fmt.Fprintf(f, "\nDefinition cases := %s.\n", coqListNL(coqCases))
	fmt.Fprintf(f, "\nDefinition bad := Eval vm_compute in %s cases.\nLocal Open Scope N_scope.\nPrint bad.\n", fn)
	if fnProp != "" {
		fmt.Fprintf(f, "\nDefinition bad_prop := Eval vm_compute in %s cases.\nPrint bad_prop.\n", fnProp)
	}
	if e.detailFn != "" {
		fmt.Fprintf(f, "\nDefinition detail := Eval vm_compute in %s cases.\nPrint detail.\n", e.detailFn)
	}
	check(f.Close())
	side, err := json.Marshal(inputs)
	check(err)
	check(os.WriteFile(filepath.Join(e.out, name+".json"), side, 0o644))
	e.m.CaseFiles = append(e.m.CaseFiles, name)
}

func check(err error) {
	if err != nil {
		fmt.Fprintln(os.Stderr, "harness:", err)
		os.Exit(2)
	}
}

var commands = map[string]func(*env){}

func main() {
	log.SetOutput(io.Discard) // gomacro logs every flattened field
	tier := flag.String("tier", "quick", "quick|thorough")
	seed := flag.Int64("seed", 1, "PRNG seed")
	out := flag.String("out", "", "output directory")
	replay := flag.String("replay", "", "replay path")
	flag.Parse()
	if flag.NArg() < 1 {
		var names []string
		for k := range commands {
			names = append(names, k)
		}
		sort.Strings(names)
		fmt.Fprintln(os.Stderr, "usage: harness [flags] <command>; commands:", names)
		os.Exit(2)
	}
	cmd := flag.Arg(0)
	fn, ok := commands[cmd]
	if !ok {
		fmt.Fprintln(os.Stderr, "unknown command", cmd)
		os.Exit(2)
	}
	if *out == "" {
		fmt.Fprintln(os.Stderr, "-out required")
		os.Exit(2)
	}
	check(os.MkdirAll(*out, 0o755))
	if s := os.Getenv("VERIF_SEED"); s != "" && *seed == 1 {
		if v, err := strconv.ParseInt(s, 10, 64); err == nil {
			*seed = v
		}
	}
	e := &env{tier: *tier, seed: *seed, out: *out, replay: *replay, r: newRng(*seed),
		m: &meta{Property: cmd, Tier: *tier, Seed: *seed, Distribution: map[string]int{}}}
	defer cleanupScratch()
	fn(e)
	if os.Getenv("GMV_CHILD") != "" {
		return
	}
	if e.m.Samples == nil {
		e.m.Samples = []interface{}{}
	}
	if e.m.Failures == nil {
		e.m.Failures = []oracleFailure{}
	}
	b, err := json.MarshalIndent(e.m, "", " ")
	check(err)
	check(os.WriteFile(filepath.Join(*out, "meta.json"), b, 0o644))
}

// writeAnaCross: one Coq case per module requiring the observed analysis to be the one the analysis model builds from
// the facts (Corr/AnaCross.v), for the checks whose own cases do not carry the analysis.
func (e *env) writeAnaCross(prefix string, specs []*modSpec, obs []*obsResult) {
	var cases []string
	var inputs []interface{}
	flush := func() {
		if len(cases) == 0 {
			return
		}
		e.writeCasesFn(fmt.Sprintf("cases_%s_ana_%d", prefix, len(e.m.CaseFiles)), anaHeader+"From GM Require Corr.AnaCross.\n", "AnaCross.mismatches", cases, inputs)
		cases, inputs = nil, nil
	}
	for i, o := range obs {
		if o == nil || o.LoadErr != "" || o.Outcome != "ok" || o.Facts == "" || o.Ana == "" || o.Enums == "" {
			continue
		}
		cases = append(cases, fmt.Sprintf("((%s : prog),\n (%s : list enum),\n (%s : ana_obs))", o.Facts, o.Enums, o.Ana))
		inputs = append(inputs, map[string]interface{}{"module": specs[i], "obligation": "the observed analysis is the one the analysis model builds from the go/types facts (Corr/AnaCross.v)"})
		if len(cases) == 4 {
			flush()
		}
	}
	flush()
}
