package main

import (
	"fmt"
	"reflect"
	"regexp"
	"strings"
	"unicode"
)

func init() { commands["C09"] = runC09 }

var (
	reTSInterface = regexp.MustCompile(`(?s)export interface (\w+) \{\n(.*?)\n\s*\}`)
	reDartFrom    = regexp.MustCompile(`(?s)(\w+) (\w+)FromJson\(dynamic json_\) \{\s*final json = \(json_ as Map<String, dynamic>\);\s*return (\w+)\((.*?)\n\s*\);\n`)
	reDartKey     = regexp.MustCompile(`json\['(.*?)'\]`)
	reDartTo      = regexp.MustCompile(`(?s)Map<String, dynamic> (\w+)ToJson\((\w+) item\) \{\s*return \{(.*?)\n\s*\};\n`)
	reDartToKey   = regexp.MustCompile(`(?m)^\s*"(.*?)" :`)
	reSQLStruct   = regexp.MustCompile(`(?s)CREATE OR REPLACE FUNCTION gomacro_validate_json_(\w+?)_(\w+) \(data jsonb\)[^;]*?is_valid boolean;.*?is_valid := \(SELECT bool_and\(\s*(.*?)\n\s*\) FROM jsonb_each\(data\)\)\s*(.*?);\n`)
	reSQLKey      = regexp.MustCompile(`'((?:[^'])*)'`)
	reSQLCheck    = regexp.MustCompile(`data->'(.*?)'\)`)
)

// per struct local name: the ordered key list found in each target's text (nil = struct not emitted there)
func tsKeys(text string) map[string][]string {
	out := map[string][]string{}
	for _, m := range reTSInterface.FindAllStringSubmatch(text, -1) {
		keys := []string{}
		for _, line := range strings.Split(m[2], "\n") {
			line = strings.TrimSpace(line)
			if line == "" {
				continue
			}
			if i := strings.Index(line, ": "); i >= 0 {
				keys = append(keys, line[:i])
			} else {
				keys = append(keys, "<unparsed:"+line+">")
			}
		}
		out[m[1]] = keys
	}
	// empty structs are emitted as Record<string, never>
	for _, m := range regexp.MustCompile(`export type (\w+) = Record<string, never>`).FindAllStringSubmatch(text, -1) {
		out[m[1]] = []string{}
	}
	return out
}

func dartKeys(text string) (from, to map[string][]string) {
	from, to = map[string][]string{}, map[string][]string{}
	for _, m := range reDartFrom.FindAllStringSubmatch(text, -1) {
		keys := []string{}
		for _, k := range reDartKey.FindAllStringSubmatch(m[4], -1) {
			keys = append(keys, k[1])
		}
		from[m[1]] = keys
	}
	for _, m := range reDartTo.FindAllStringSubmatch(text, -1) {
		keys := []string{}
		for _, k := range reDartToKey.FindAllStringSubmatch(m[3], -1) {
			keys = append(keys, k[1])
		}
		to[m[2]] = keys
	}
	return from, to
}

func sqlKeys(text string) (keyList, checks map[string][]string) {
	keyList, checks = map[string][]string{}, map[string][]string{}
	for _, m := range reSQLStruct.FindAllStringSubmatch(text, -1) {
		name := m[2]
		keys := []string{}
		if strings.HasPrefix(strings.TrimSpace(m[3]), "key IN") {
			for _, k := range reSQLKey.FindAllStringSubmatch(m[3], -1) {
				keys = append(keys, k[1])
			}
		}
		keyList[name] = keys
		cs := []string{}
		for _, k := range reSQLCheck.FindAllStringSubmatch(m[4], -1) {
			cs = append(cs, k[1])
		}
		checks[name] = cs
	}
	return keyList, checks
}

func coqOptStrs(l []string, ok bool) string {
	if !ok {
		return "None"
	}
	return "(Some " + coqStrList(l) + ")"
}

func runC09(e *env) {
	e.m.Rule = "corpus modules (every json tag spelling: name, name+options, empty name+options, '-', '-,', other keys before/after, gomacro ignore / opaque, embedded plain / tagged / conflicting) then seeded synthesised modules with random tag spellings; " +
		"one evaluation = one struct node: its field table against the model, against the real encoding/json (struct rebuilt with reflect.StructOf) and against the key lists read back from the TypeScript, Dart and SQL-validator outputs; " +
		"plus metamorphic pairs (module, module + one ignored field) whose three outputs must be identical; non-trivial = struct with at least one tagged or unexported field"
	e.m.Extra = map[string]interface{}{"mismatch_means": "model",
		"assumptions": []string{"tags contain no backslash escapes (reflect.StructTag unquoting is modelled for plain values only)",
			"the class claimed: no key conflict between flattened embedded structs and no tag name on an embedded struct (encoding/json then nests or drops; see known findings)"}}
	specs := append(corpusFields(), repoFixtures("repo-testsource-defs", "repo-testsource-other", "repo-sql-models")...)
	n := 20
	if e.thorough() {
		n = 250
	}
	prof := profile{Structs: true, NamedBasics: true, Enums: true, Containers: true, Embedded: true, TagsAll: true, SQL: true, ModShape: 0}
	for i := 0; i < n; i++ {
		m := synthModule(e.r, prof, i)
		specs = append(specs, m)
	}
	// metamorphic twins: add an ignored field to the last struct of the analysed file
	nBase := len(specs)
	ignoredFields := []string{"\tzzIgnored1 int\n", "\tZzIgnored2 []string `json:\"-\"`\n", "\tZzIgnored3 map[string]int `gomacro:\"ignore\"`\n", "\tzzIgnored4 float64 `json:\"x\"`\n",
		// ignored and tagged opaque: the ignored status wins in every target
		"\tzzIgnored5 int `gomacro-opaque:\"dart\"`\n", "\tZzIgnored6 []string `json:\"-\" gomacro-opaque:\"dart\"`\n",
		"\tZzIgnored7 map[string]int `gomacro:\"ignore\" gomacro-opaque:\"typescript\"`\n", "\tZzIgnored8 float64 `json:\"-\" gomacro-opaque:\"dart, typescript\"`\n",
		"\tZzIgnored9 *int `gomacro-opaque:\"dart\" gomacro:\"ignore\"`\n"}
	for i := 0; i < nBase; i++ {
		src := specs[i].Files[0].Src
		j := strings.LastIndex(src, "}\n")
		if j < 0 || !strings.Contains(src, "struct {") {
			continue
		}
		tw := *specs[i]
		tw.Name = specs[i].Name + "+ignored"
		tw.Files = append([]modFile(nil), specs[i].Files...)
		tw.Files[0] = modFile{"models.go", src[:j] + ignoredFields[i%len(ignoredFields)] + src[j:]}
		tw.Tags = append([]string{"twin-of:" + fmt.Sprint(i)}, tw.Tags...)
		specs = append(specs, &tw)
	}
	obs := observeAll(specs, "ts,dart,sql", 14)
	defer e.writeAnaCross("C09", specs, obs)
	var cases []string
	var inputs []interface{}
	fileNo := 0
	flush := func() {
		if len(cases) > 0 {
			e.writeCases2(fmt.Sprintf("cases_C09_%d", fileNo), "From Coq Require Import List String.\nFrom GM Require Import Base.Hex Model.Fields Corr.Check_C09.\nImport ListNotations.\nLocal Open Scope string_scope.\n", "mismatches", "prop_failures", cases, inputs)
			fileNo++
			cases, inputs = nil, nil
		}
	}
	seenStruct := map[string]bool{}
	for i, o := range obs {
		spec := specs[i]
		if o.LoadErr != "" {
			e.m.count("rejected_by_type_checker")
			e.m.Extra["last_rejected"] = spec.Name + ": " + o.LoadErr
			continue
		}
		if o.Outcome != "ok" {
			e.m.count("analysis_" + o.Outcome)
			continue
		}
		ts, dartT, sqlT := o.Gen["ts"], o.Gen["dart"], o.Gen["sql"]
		e.m.count("ts_" + ts.Outcome)
		e.m.count("dart_" + dartT.Outcome)
		e.m.count("sql_" + sqlT.Outcome)
		// metamorphic oracle
		if i >= nBase {
			var base int
			fmt.Sscanf(spec.Tags[0], "twin-of:%d", &base)
			b := obs[base]
			e.m.OracleRuns++
			for _, tgt := range []string{"ts", "dart", "sql"} {
				if tgt == "sql" && b.Gen[tgt].Outcome == "ok" && o.Gen[tgt].Outcome == "ok" {
					// the statement is about the JSON validators: an (unexported or json:"-") field of a table struct is
					// still a column (a new column may bring new validators); every validator of the base must be unchanged
					bf, of := sqlFunctions(b.Gen[tgt].Text), sqlFunctions(o.Gen[tgt].Text)
					for name, body := range bf {
						if ob, ok := of[name]; ok && ob != body {
							e.m.fail(oracleFailure{What: "adding an ignored field changes the JSON validator " + name, Input: spec, Expect: firstDiff(body, ob)})
						}
					}
					continue
				}
				if b.Gen[tgt].Outcome == "ok" && o.Gen[tgt].Outcome == "ok" && b.Gen[tgt].Text != o.Gen[tgt].Text {
					e.m.fail(oracleFailure{What: "adding an ignored field changes the " + tgt + " output", Input: spec, Class: classifyIgnoredChange(spec),
						Expect: firstDiff(b.Gen[tgt].Text, o.Gen[tgt].Text), Got: ""})
				}
			}
			e.m.count("metamorphic_pairs")
			continue
		}
		tsK := map[string][]string{}
		if ts.Outcome == "ok" {
			tsK = tsKeys(ts.Text)
		}
		dFrom, dTo := map[string][]string{}, map[string][]string{}
		if dartT.Outcome == "ok" {
			dFrom, dTo = dartKeys(dartT.Text)
		}
		sKeys, sChecks := map[string][]string{}, map[string][]string{}
		if sqlT.Outcome == "ok" {
			sKeys, sChecks = sqlKeys(sqlT.Text)
		}
		localCount := map[string]int{}
		for _, st := range o.Structs {
			localCount[st.Local]++
		}
		for _, st := range o.Structs {
			if localCount[st.Local] > 1 || strings.Contains(st.ID, "[") {
				continue // same local name in two packages / generic instantiation: the text extraction would be ambiguous
			}
			e.m.Evaluations++
			var fs []string
			nontrivial := false
			for _, f := range st.Fields {
				if f.Tag != "" || !f.GoExported {
					nontrivial = true
				}
				fs = append(fs, fmt.Sprintf("({| sf_name := %s; sf_tag := %s; sf_go_exported := %s; sf_embedded_struct := false |}, %s, %s)",
					coqStr(f.Name), coqStr(f.Tag), coqBool(f.GoExported), coqBool(f.Exported), coqStr(f.JSON)))
			}
			if !seenStruct[spec.Name+st.ID] {
				seenStruct[spec.Name+st.ID] = true
				if nontrivial {
					e.m.Nontrivial++
				}
			}
			title := strings.Title(st.Local)
			tk, tok := tsK[st.Local]
			df, dfok := dFrom[title]
			dt, dtok := dTo[title]
			sk, skok := sKeys[st.Local]
			sc, scok := sChecks[st.Local]
			in := map[string]interface{}{"module": spec.Name, "struct": st.ID, "fields": st.Fields, "encoding_json_keys": st.StdKeysKept,
				"ts_keys": tk, "dart_from": df, "dart_to": dt, "sql_keys": sk, "sql_checks": sc, "source": spec.Files[0].Src}
			in["class"] = classifyFieldCase(st)
			if nontrivial {
				e.m.sample(map[string]interface{}{"struct": st.ID, "fields": st.Fields, "encoding_json_keys": st.StdKeysKept, "ts_keys": tk})
			}
			cases = append(cases, fmt.Sprintf("{| c9_fields := %s; c9_std := %s; c9_std_kept := %s; c9_ts := %s; c9_dart_from := %s; c9_dart_to := %s; c9_sql_keys := %s; c9_sql_checks := %s |}",
				coqList(fs), coqOptStrs(st.StdKeys, st.StdOK), coqOptStrs(st.StdKeysKept, st.StdOK), coqOptStrs(tk, tok), coqOptStrs(df, dfok), coqOptStrs(dt, dtok), coqOptStrs(sk, skok), coqOptStrs(sc, scok)))
			inputs = append(inputs, in)
			if len(cases) == 60 {
				flush()
			}
		}
	}
	flush()
}

func firstDiff(a, b string) string {
	la, lb := strings.Split(a, "\n"), strings.Split(b, "\n")
	for i := 0; i < len(la) && i < len(lb); i++ {
		if la[i] != lb[i] {
			return fmt.Sprintf("line %d: %q vs %q", i+1, la[i], lb[i])
		}
	}
	return fmt.Sprintf("lengths %d vs %d lines", len(la), len(lb))
}

// classification of a failing struct for the known-findings file: which tag spelling is involved
func classifyFieldCase(st structObs) string {
	for _, f := range st.Fields {
		// a json tag name that encoding/json refuses (isValidTag) and replaces by the Go field name
		name, _, _ := strings.Cut(reflect.StructTag(f.Tag).Get("json"), ",")
		if name != "" && !stdValidTag(name) {
			return "json-tag-name-invalid-for-encoding-json"
		}
		if strings.Contains(f.Tag, `json:"`) && strings.Contains(f.JSON, ",") {
			return "json-tag-options-in-key"
		}
	}
	return ""
}

func classifyIgnoredChange(m *modSpec) string { return "" }

var reSQLFunc = regexp.MustCompile(`(?s)CREATE OR REPLACE FUNCTION (gomacro_validate_json_\w+) \(data jsonb\).*?IMMUTABLE;`)

func sqlFunctions(text string) map[string]string {
	out := map[string]string{}
	for _, m := range reSQLFunc.FindAllStringSubmatch(text, -1) {
		out[m[1]] = m[0]
	}
	return out
}

// copy of encoding/json.isValidTag
func stdValidTag(s string) bool {
	if s == "" {
		return false
	}
	for _, c := range s {
		switch {
		case strings.ContainsRune("!#$%&()*+-./:;<=>?@[]^_{|}~ ", c):
		case !unicode.IsLetter(c) && !unicode.IsDigit(c):
			return false
		}
	}
	return true
}
