package main

// C01, gounions stage: the declarations the real generator hands to WriteDeclarations, read back one by one
// (go/parser) into the skeleton the traversal model of Model/GoUnionsGen.v predicts: ID, declared types and
// constants, methods with their receiver, wrapper types mentioned.

import (
	"encoding/json"
	"fmt"
	"go/ast"
	"go/parser"
	"go/token"
	"regexp"
	"sort"
	"strings"
)

// gounionsSkeleton returns the Coq term (gu_obs) for the observed gounions list of a module
func gounionsSkeleton(o *obsResult) string {
	g := o.Gen["gounions"]
	switch g.Outcome {
	case "diag":
		return "GuDiag"
	case "crash":
		return "GuCrash"
	case "ok":
	default:
		return "GuSkip"
	}
	d := o.Gen["decls"]
	if d.Outcome != "ok" {
		return "GuSkip"
	}
	var lists map[string][]c19decl
	if err := json.Unmarshal([]byte(d.Text), &lists); err != nil {
		return "GuSkip"
	}
	l, ok := lists["gounions"]
	if !ok {
		return "GuSkip"
	}
	var out []string
	for _, decl := range l {
		if decl.ID == "aa_header" {
			continue
		}
		fset := token.NewFileSet()
		f, err := parser.ParseFile(fset, "decl.go", "package p\n"+decl.Content, 0)
		if err != nil {
			return "GuSkip" // a syntax error is the business of the go/types oracle
		}
		var typs, consts, methods []string
		own := map[string]bool{}
		for _, d := range f.Decls {
			switch d := d.(type) {
			case *ast.FuncDecl:
				if d.Recv != nil && len(d.Recv.List) == 1 {
					t := d.Recv.List[0].Type
					if st, ok := t.(*ast.StarExpr); ok {
						t = st.X
					}
					if id, ok := t.(*ast.Ident); ok {
						methods = append(methods, fmt.Sprintf("(%s, %s)", coqStr(id.Name), coqStr(d.Name.Name)))
					}
				}
			case *ast.GenDecl:
				for _, sp := range d.Specs {
					switch sp := sp.(type) {
					case *ast.TypeSpec:
						typs = append(typs, sp.Name.Name)
						own[sp.Name.Name] = true
					case *ast.ValueSpec:
						if d.Tok == token.CONST {
							for _, n := range sp.Names {
								consts = append(consts, n.Name)
							}
						}
					}
				}
			}
		}
		wr := map[string]bool{}
		ast.Inspect(f, func(n ast.Node) bool {
			switch n := n.(type) {
			case *ast.SelectorExpr:
				if x, ok := n.X.(*ast.Ident); ok && strings.HasSuffix(n.Sel.Name, "Wrapper") {
					wr[x.Name+"."+n.Sel.Name] = true
					return false
				}
			case *ast.Ident:
				if strings.HasSuffix(n.Name, "Wrapper") && !own[n.Name] {
					wr[n.Name] = true
				}
			}
			return true
		})
		var wrs []string
		for w := range wr {
			wrs = append(wrs, w)
		}
		sort.Strings(wrs)
		out = append(out, fmt.Sprintf("{| go_id := %s; go_types := %s; go_consts := %s; go_methods := %s; go_wrappers := %s |}",
			coqStr(decl.ID), coqStrList(typs), coqStrList(consts), coqList(methods), coqStrList(wrs)))
	}
	return "(GuOk " + coqList(out) + ")"
}

var reRandCall = regexp.MustCompile(`\brand([\pL\pN_]+)\(\)`)

// randdataSkeleton returns the Coq term (rd_obs) for the observed randdata list of a module: the function every
// declaration defines (its ID) and the functions rand<X>() its text calls, in order
func randdataSkeleton(o *obsResult) string {
	g := o.Gen["randdata"]
	switch g.Outcome {
	case "diag":
		return "RdDiag"
	case "crash":
		return "RdCrash"
	case "ok":
	default:
		return "RdSkip"
	}
	d := o.Gen["decls"]
	if d.Outcome != "ok" {
		return "RdSkip"
	}
	var lists map[string][]c19decl
	if err := json.Unmarshal([]byte(d.Text), &lists); err != nil {
		return "RdSkip"
	}
	l, ok := lists["randdata"]
	if !ok {
		return "RdSkip"
	}
	var out []string
	for _, decl := range l {
		if decl.ID == "__header" {
			continue
		}
		body := strings.Replace(decl.Content, "func rand"+decl.ID+"()", "", 1)
		var calls []string
		for _, m := range reRandCall.FindAllStringSubmatch(body, -1) {
			calls = append(calls, m[1])
		}
		defines := strings.Contains(decl.Content, "func rand"+decl.ID+"()")
		out = append(out, fmt.Sprintf("{| ro_id := %s; ro_defines := %s; ro_calls := %s |}", coqStr(decl.ID), coqBool(defines), coqStrList(calls)))
	}
	return "(RdOk " + coqList(out) + ")"
}
