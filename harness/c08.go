package main

import (
	"fmt"
	"regexp"
	"strings"
)

func init() { commands["C08"] = runC08 }

var (
	reCreateTable = regexp.MustCompile(`(?s)CREATE TABLE (\w+) \(\n(.*?)\n\s*\);`)
	reFK          = regexp.MustCompile(`ALTER TABLE (\w+) ADD FOREIGN KEY\((\w+)\) REFERENCES (\w+) (.*?);`)
	reJSONCheck   = regexp.MustCompile(`ALTER TABLE (\w+) ADD CONSTRAINT (\w+)_gomacro CHECK \((\w+)\((\w+)\)\);`)
	reComposite   = regexp.MustCompile(`CREATE TYPE (\w+) AS \((.*?)\);`)
	reSpaces      = regexp.MustCompile(`\s+`)
)

type sqlTable struct {
	Name       string
	Columns    []string
	FKs        [][3]string
	JSONChecks []string
	JSONFuncs  map[string]string
}

type sqlScript struct {
	Tables     []sqlTable
	Composites map[string]string
}

func readSQLScript(text string) *sqlScript {
	sc := &sqlScript{Composites: map[string]string{}}
	byName := map[string]int{}
	for _, m := range reCreateTable.FindAllStringSubmatch(text, -1) {
		t := sqlTable{Name: m[1], JSONFuncs: map[string]string{}}
		for _, col := range strings.Split(m[2], ",\n") {
			if c := strings.TrimSpace(reSpaces.ReplaceAllString(col, " ")); c != "" {
				t.Columns = append(t.Columns, c)
			}
		}
		byName[t.Name] = len(sc.Tables)
		sc.Tables = append(sc.Tables, t)
	}
	for _, m := range reFK.FindAllStringSubmatch(text, -1) {
		if i, ok := byName[m[1]]; ok {
			sc.Tables[i].FKs = append(sc.Tables[i].FKs, [3]string{m[2], m[3], strings.TrimSpace(strings.TrimPrefix(m[4], "ON DELETE "))})
		}
	}
	for _, m := range reJSONCheck.FindAllStringSubmatch(text, -1) {
		if i, ok := byName[m[1]]; ok && m[2] == m[4] {
			sc.Tables[i].JSONChecks = append(sc.Tables[i].JSONChecks, m[2])
			sc.Tables[i].JSONFuncs[m[2]] = m[3]
		}
	}
	for _, m := range reComposite.FindAllStringSubmatch(text, -1) {
		sc.Composites[m[1]] = m[2]
	}
	return sc
}

func runC08(e *env) {
	e.m.Rule = "corpus + seeded synthesised model files: 2..5 table structs (primary and link tables) over every column kind (boolean, smallint/integer, real, text, enums int/string/uint8, timestamp, date, bytea, typed arrays fixed and variable, composite, jsonb struct/slice/map/union, " +
		"sql.Null* and local nullable ids, guards, unexported fields) with foreign keys by ID type and by tag, ON DELETE tags; one evaluation = one table: its CREATE TABLE columns, foreign keys, JSON checks and composite declarations parsed from the real script vs the model; " +
		"non-trivial = table with at least 3 columns"
	e.m.Extra = map[string]interface{}{"mismatch_means": "property"}
	var specs []*modSpec
	specs = append(specs, corpusSQL()...)
	specs = append(specs, repoFixtures("repo-sql-models")...)
	n := 12
	if e.thorough() {
		n = 200
	}
	for i := 0; i < n; i++ {
		m, _ := synthSQL(e.r, i, false)
		specs = append(specs, m)
	}
	obs := observeAll(specs, "sql", 14)
	var cases []string
	var inputs []interface{}
	for i, o := range obs {
		spec := specs[i]
		if o.LoadErr != "" {
			e.m.count("rejected_by_type_checker")
			e.m.Extra["last_rejected"] = spec.Name + ": " + o.LoadErr
			continue
		}
		g := o.Gen["sql"]
		e.m.count("analysis_" + o.Outcome)
		e.m.count("sql_" + g.Outcome)
		if o.Outcome != "ok" {
			continue
		}
		obsTerm := "SqlDiag"
		if g.Outcome == "crash" {
			obsTerm = "SqlCrash"
		}
		if g.Outcome == "ok" {
			sc := readSQLScript(g.Text)
			var ts []string
			for _, t := range sc.Tables {
				e.m.Evaluations++
				if len(t.Columns) >= 3 {
					e.m.Nontrivial++
					e.m.sample(map[string]interface{}{"table": t.Name, "columns": t.Columns, "foreign_keys": t.FKs, "json_checks": t.JSONChecks})
				}
				var fks []string
				for _, k := range t.FKs {
					fks = append(fks, fmt.Sprintf("(%s, %s, %s)", coqStr(k[0]), coqStr(k[1]), coqStr(k[2])))
				}
				var comps []string
				ts = append(ts, fmt.Sprintf("{| t_name := %s; t_columns := %s; t_fks := %s; t_json_checks := %s; t_composites := %s |}",
					coqStr(t.Name), coqStrList(t.Columns), coqList(fks), coqStrList(t.JSONChecks), coqList(comps)))
			}
			var comps []string
			for name := range sc.Composites {
				comps = append(comps, coqStr(name))
			}
			obsTerm = fmt.Sprintf("(SqlOk %s %s)", coqListNL(ts), coqList(comps))
		}
		cases = append(cases, fmt.Sprintf("{| c8_prog := %s;\n c8_enums := %s;\n c8_ana := %s;\n c8_obs := %s |}", o.Facts, o.Enums, o.Ana, obsTerm))
		inputs = append(inputs, map[string]interface{}{"module": spec, "sql_outcome": g.Outcome, "msg": g.Msg, "script": g.Text})
		if len(cases) == 4 {
			e.writeCases(fmt.Sprintf("cases_C08_%d", len(e.m.CaseFiles)), anaHeader+"From GM Require Import Model.SqlTypes Corr.Check_C08.\n", cases, inputs)
			cases, inputs = nil, nil
		}
	}
	if len(cases) > 0 {
		e.writeCases(fmt.Sprintf("cases_C08_%d", len(e.m.CaseFiles)), anaHeader+"From GM Require Import Model.SqlTypes Corr.Check_C08.\n", cases, inputs)
	}
}

func corpusSQL() []*modSpec {
	mk := func(name, src string, extra ...modFile) *modSpec {
		return &modSpec{Name: name, ModPath: "example.com/org/models", Target: "models.go",
			Files: append([]modFile{{"models.go", src}}, extra...)}
	}
	return []*modSpec{
		mk("sql-fields-that-are-not-columns-before-the-id", "package models\n\ntype IdUser int64\n\ntype User struct {\n\tdirty bool\n\tcache []int\n\tId IdUser\n\tName string\n\tAge int16\n}\n\ntype IdPost int64\n\ntype Post struct {\n\tTitle string\n\tloaded bool\n\tId IdPost\n\tIdUser IdUser\n}\n"),
		mk("sql-basic-kinds", "package models\n\nimport \"time\"\n\ntype IdT int64\n\ntype T struct {\n\tId IdT\n\tB bool\n\tI int\n\tI16 int16\n\tU8 uint8\n\tI64 int64\n\tF float64\n\tF32 float32\n\tS string\n\tT time.Time\n\tBytes []byte\n\tu int\n}\n"),
		mk("sql-snake-names", "package models\n\ntype HTTPServer struct{ Id int64; A int }\ntype UserID2Name struct{ Id int64; A int }\ntype A struct{ Id int64; A int }\ntype ABTest struct{ Id int64; A int }\ntype Myapi2 struct{ Id int64; A int }\n"),
		mk("sql-nullable", "package models\n\nimport (\n\t\"database/sql\"\n\t\"time\"\n)\n\ntype IdT int64\ntype OptT struct {\n\tId IdT\n\tValid bool\n}\ntype NullDate struct {\n\tValid bool\n\tD Date\n}\ntype Date time.Time\ntype NotNull struct {\n\tValid bool\n\tX int\n\tY int\n}\ntype NullStruct struct {\n\tValid bool\n\tP struct2\n}\ntype struct2 struct{ A string }\n\ntype T struct {\n\tId IdT\n\tA sql.NullInt64\n\tB sql.NullString\n\tC OptT\n\tD NullDate\n\tE NotNull\n\tF NullStruct\n\tG sql.NullTime\n}\n"),
		mk("sql-arrays-enums", "package models\n\ntype E int\nconst (\n\tE0 E = iota\n\tE1\n)\ntype SE string\nconst (\n\tSA SE = \"a\"\n\tSB SE = \"it's\"\n)\n\ntype T struct {\n\tId int64\n\tA []int\n\tB [4]string\n\tC []E\n\tD []SE\n\tE E\n\tF SE\n\tG [0]bool\n\tH [][]int\n\tI []float64\n}\n"),
		mk("sql-composite-json", "package models\n\ntype E int\nconst (\n\tE0 E = iota\n)\ntype P struct{ X int; Y E }\ntype Empty struct{}\ntype J struct{ X int; S string }\ntype U interface{ isU() }\nfunc (J) isU() {}\ntype W struct{ V U }\n\ntype T struct {\n\tId int64\n\tP P\n\tE Empty\n\tJ J\n\tM map[string]int\n\tW W\n\tL []J\n}\n"),
		mk("sql-foreign-keys", "package models\n\ntype IdA int64\ntype IdB int64\ntype BId int64\ntype OptA struct {\n\tValid bool\n\tId IdA\n}\n\ntype A struct {\n\tId IdA\n\tParent IdA\n\tOther IdB `gomacro-sql-on-delete:\"CASCADE\"`\n}\n\ntype B struct {\n\tId IdB\n\tIdA IdA\n\tMaybe OptA `gomacro-sql-foreign:\"A\" gomacro-sql-on-delete:\"SET NULL\"`\n\tRaw int64 `gomacro-sql-foreign:\"A\"`\n\tSuffix BId\n}\n\ntype LinkAB struct {\n\tIdA IdA\n\tIdB IdB\n}\n"),
		mk("sql-enum-unexported-members", "package models\n\ntype Status int\n\nconst (\n\tActive Status = iota\n\tPaused\n\tarchived\n)\n\ntype Color string\n\nconst (\n\tBlue Color = \"blue\"\n\tRed Color = \"red\"\n\tother Color = \"other\"\n)\n\ntype T struct {\n\tId int64\n\tS Status\n\tC Color\n\tL []Status\n}\n"),
		mk("sql-shared-json-shapes", "package models\n\ntype Meta map[string]int\n\ntype Address struct {\n\tStreet string\n\tTags []string\n}\n\ntype Article struct {\n\tId int64\n\tMeta Meta\n\tBilling Address\n\tShipping Address\n}\n\ntype Comment struct {\n\tId int64\n\tMeta Meta\n\tFrom Address\n}\n"),
		mk("sql-table-names-ending-with-id", "package models\n\ntype IdGrid int64\ntype IdBid int64\ntype IdCell int64\n\ntype Grid struct {\n\tId IdGrid\n\tName string\n}\n\ntype Bid struct {\n\tId IdBid\n\tAmount int\n}\n\ntype Cell struct {\n\tId IdCell\n\tIdGrid IdGrid `gomacro-sql-on-delete:\"CASCADE\"`\n\tIdBid IdBid\n\tV int\n}\n"),
		mk("sql-self-reference", "package models\n\nimport \"database/sql\"\n\ntype IdCategory int64\n\ntype Category struct {\n\tId IdCategory\n\tName string\n\tParent sql.NullInt64 `gomacro-sql-foreign:\"Category\" gomacro-sql-on-delete:\"CASCADE\"`\n\tSibling int64 `gomacro-sql-foreign:\"Category\"`\n\tSelf IdCategory\n}\n"),
		mk("sql-guards", "package models\n\ntype K string\nconst (\n\tKA K = \"ka\"\n)\n\ntype T struct {\n\tId int64\n\tkind K `gomacro-sql-guard:\"#[K.KA]\"`\n\tVersion int `gomacro-sql-guard:\"2\"`\n\tA int\n}\n"),
	}
}
