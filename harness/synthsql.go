package main

import (
	"fmt"
	"strings"
)

// synthSQL builds a "model file": table structs with every supported SQL column kind.
// The synthesiser keeps what it intended (directives) for C16.
type sqlIntent struct {
	Tables []string // Go names of the table structs, in order
}

func synthSQL(r *rng, idx int, withComments bool) (*modSpec, *sqlIntent) {
	var b strings.Builder
	in := &sqlIntent{}
	b.WriteString("package models\n\nimport (\n\t\"database/sql\"\n\t\"time\"\n)\n\nvar _ sql.NullInt64\nvar _ time.Time\n\n")
	// shared helper types
	b.WriteString("type Color int\n\nconst (\n\tRed Color = iota // rouge\n\tGreen\n\tBlue\n)\n\n")
	b.WriteString("type Level string\n\nconst (\n\tLow Level = \"low\"\n\tHigh Level = \"high\"\n)\n\n")
	b.WriteString("type Mark uint8\n\nconst (\n\tM1 Mark = 1\n\tM5 Mark = 5\n)\n\n")
	b.WriteString("type Date time.Time\ntype Moment time.Time\n\n")
	b.WriteString("type Point struct {\n\tX int\n\tY int16\n\tC Color\n}\n\n")
	b.WriteString("type MapSI map[string]int\n\n")
	b.WriteString("type Payload struct {\n\tName string `json:\"name\"`\n\tTags Strings\n\tInner Point\n\tOpt MapSI\n}\n\n")
	b.WriteString("type Shape interface{ isShape() }\ntype Circle struct{ R float64 }\ntype Square struct{ Side int }\nfunc (Circle) isShape() {}\nfunc (Square) isShape() {}\n\n")
	b.WriteString("type Strings []string\ntype Triple [3]int\ntype Flags [2]bool\ntype Colors []Color\ntype Payloads []Payload\ntype Dict map[string]Payload\n\n")
	b.WriteString("type ShapeBox struct{ S Shape }\n\n")
	n := 2 + r.intn(4)
	names := []string{"User", "Account", "BlogPost", "HTTPLog", "Item", "OrderLine", "Tag", "A"}
	shuffle(r, names)
	names = names[:n]
	for _, t := range names {
		fmt.Fprintf(&b, "type Id%s int64\n", t)
		fmt.Fprintf(&b, "type Opt%s struct {\n\tValid bool\n\tId Id%s\n}\n\n", t, t)
	}
	kinds := []func(col string) string{
		func(c string) string { return c + " int" },
		func(c string) string { return c + " int16" },
		func(c string) string { return c + " uint8" },
		func(c string) string { return c + " bool" },
		func(c string) string { return c + " float64" },
		func(c string) string { return c + " string" },
		func(c string) string { return c + " Color" },
		func(c string) string { return c + " Level" },
		func(c string) string { return c + " Mark" },
		func(c string) string { return c + " time.Time" },
		func(c string) string { return c + " Date" },
		func(c string) string { return c + " Moment" },
		func(c string) string { return c + " Strings" },
		func(c string) string { return c + " Strings" },
		func(c string) string { return c + " Triple" },
		func(c string) string { return c + " Flags" },
		func(c string) string { return c + " Colors" },
		func(c string) string { return c + " Point" },
		func(c string) string { return c + " Payload" },
		func(c string) string { return c + " Payloads" },
		func(c string) string { return c + " Dict" },
		func(c string) string { return c + " ShapeBox" },
		func(c string) string { return c + " sql.NullInt64" },
		func(c string) string { return c + " sql.NullString" },
		func(c string) string { return c + " sql.NullBool" },
		func(c string) string { return c + " sql.NullFloat64" },
		func(c string) string { return c + " string `gomacro-sql-guard:\"'fixed'\"`" },
		func(c string) string { return strings.ToLower(c[:1]) + c[1:] + " int `gomacro-sql-guard:\"3\"`" },
		func(c string) string { return strings.ToLower(c[:1]) + c[1:] + " int" }, // unexported: not a column
	}
	for ti, t := range names {
		if withComments {
			writeSQLComments(r, &b, t, names)
		}
		fmt.Fprintf(&b, "type %s struct {\n", t)
		isLink := ti > 0 && r.chance(1, 4)
		if !isLink {
			fmt.Fprintf(&b, "\t%s Id%s\n", pick(r, []string{"Id", "Id", "ID", "Id"}), t)
		} else {
			fmt.Fprintf(&b, "\tId int // a plain column of the link table\n")
		}
		// foreign keys to other tables
		for _, o := range names {
			if o == t || !r.chance(1, 3) {
				continue
			}
			switch r.intn(4) {
			case 0:
				fmt.Fprintf(&b, "\tId%s Id%s\n", o, o)
			case 1:
				fmt.Fprintf(&b, "\tId%s Id%s `gomacro-sql-on-delete:\"CASCADE\"`\n", o, o)
			case 2:
				fmt.Fprintf(&b, "\tRef%s Opt%s `gomacro-sql-foreign:\"%s\" gomacro-sql-on-delete:\"SET NULL\"`\n", o, o, o)
			default:
				fmt.Fprintf(&b, "\tPlain%s int64 `gomacro-sql-foreign:\"%s\"`\n", o, o)
			}
		}
		nc := 1 + r.intn(7)
		for c := 0; c < nc; c++ {
			fmt.Fprintf(&b, "\t%s\n", pick(r, kinds)(fmt.Sprintf("C%d", c)))
		}
		b.WriteString("}\n\n")
		in.Tables = append(in.Tables, t)
	}
	m := &modSpec{Name: fmt.Sprintf("sql%d", idx), ModPath: "example.com/org/models", Target: "models.go", GoSrc: r.bool(),
		Files: []modFile{{"models.go", b.String()}}}
	return m, in
}

// comment directives (C16); column names refer to the fixed prefix of every table: Id, C0
func writeSQLComments(r *rng, b *strings.Builder, t string, tables []string) {
	other := pick(r, tables)
	opts := []string{
		"// gomacro:SQL ADD UNIQUE(C0)\n",
		"// gomacro:SQL ADD UNIQUE(Id, C0)\n",
		"// gomacro:SQL ADD CHECK(C0 <> #[Color.Red])\n",
		"// gomacro:SQL ADD CHECK(C0 = #[Level.High] OR C0 = #[Mark.M5])\n",
		"// gomacro:SQL _SELECT KEY(C0)\n",
		"// gomacro:SQL _SELECT KEY (Id, C0)\n",
		fmt.Sprintf("// gomacro:SQL ADD FOREIGN KEY (C0) REFERENCES %s ON DELETE CASCADE\n", other),
		fmt.Sprintf("// gomacro:SQL CREATE UNIQUE INDEX %s_idx ON %s (C0) WHERE %sX IS NULL\n", t, t, other),
		fmt.Sprintf("// gomacro:QUERY Delete%sByC0 DELETE FROM %s WHERE C0 = $c0$ ;\n", t, t),
		fmt.Sprintf("// gomacro:QUERY Update%sC0 UPDATE %s SET C0 = $val$ WHERE Id = $id$ AND C0 <> $val$ ;\n", t, t),
		"// a regular comment\n",
	}
	n := r.intn(4)
	for i := 0; i < n; i++ {
		b.WriteString(pick(r, opts))
	}
}
