module verif/harness

go 1.23.0

require (
	github.com/benoitkugler/gomacro v0.0.0
	golang.org/x/tools v0.31.0
)

require (
	golang.org/x/mod v0.24.0 // indirect
	golang.org/x/sync v0.12.0 // indirect
)

replace github.com/benoitkugler/gomacro => /repo
