package main

// C04: the PL/pgSQL validators of the jsonb columns, read back from the real script into the AST of Sem/PgSem.v,
// evaluated in Coq on the documents the real Go encoder writes for the columns and on their single-point corruptions.

import (
	"encoding/json"
	"fmt"
	"regexp"
	"strings"
	"sync"

	asql "github.com/benoitkugler/gomacro/analysis/sql"
	gen "github.com/benoitkugler/gomacro/generator"
)

func init() { commands["C04"] = runC04 }

var (
	rePgFunc    = regexp.MustCompile(`(?s)CREATE OR REPLACE FUNCTION (\w+) \(data jsonb\)\s+RETURNS boolean\s+AS \$\$(.*?)\$\$\s*LANGUAGE 'plpgsql'\s*IMMUTABLE;`)
	rePgCheck   = regexp.MustCompile(`(?m)^\s*ALTER TABLE (\w+) ADD CONSTRAINT (\w+)_gomacro CHECK \((\w+)\((\w+)\)\);`)
	rePgComment = regexp.MustCompile(`--[^\n]*`)

	rePgBasic  = regexp.MustCompile(`^DECLARE is_valid boolean := jsonb_typeof\(data\) = '(\w+)'; BEGIN IF NOT is_valid THEN RAISE WARNING '% is not a (\w+)', data; END IF; RETURN is_valid; END;$`)
	rePgEnum   = regexp.MustCompile(`^DECLARE is_valid boolean := jsonb_typeof\(data\) = '(\w+)' AND (data::int|data#>>'\{\}') IN \((.*)\); BEGIN IF NOT is_valid THEN RAISE WARNING '% is not a (\w+)', data; END IF; RETURN is_valid; END;$`)
	rePgArray  = regexp.MustCompile(`^BEGIN (IF jsonb_typeof\(data\) = 'null' THEN RETURN TRUE; END IF; )?IF jsonb_typeof\(data\) != 'array' THEN RETURN FALSE; END IF; (IF jsonb_array_length\(data\) = 0 THEN RETURN TRUE; END IF; )?RETURN \(SELECT bool_and\( (\w+)\(value\) \) FROM jsonb_array_elements\(data\)\) ?(?:AND jsonb_array_length\(data\) = (\d+))? ?; END;$`)
	rePgMap    = regexp.MustCompile(`^BEGIN IF jsonb_typeof\(data\) = 'null' THEN RETURN TRUE; END IF; RETURN jsonb_typeof\(data\) = 'object' AND \(SELECT bool_and\( (\w+)\(value\) \) FROM jsonb_each\(data\)\); END;$`)
	rePgStruct = regexp.MustCompile(`^DECLARE is_valid boolean; BEGIN IF jsonb_typeof\(data\) != 'object' THEN RETURN FALSE; END IF; is_valid := \(SELECT bool_and\( (TRUE|FALSE|key IN \((.*?)\)) \) FROM jsonb_each\(data\)\) ?((?:AND \w+\(data->'[^']*'\) ?)*); RETURN is_valid; END;$`)
	rePgField  = regexp.MustCompile(`AND (\w+)\(data->'([^']*)'\)`)
	rePgUnion  = regexp.MustCompile(`^BEGIN IF jsonb_typeof\(data\) != 'object' OR jsonb_typeof\(data->'Kind'\) != 'string' THEN RETURN FALSE; END IF; (IF NOT \(SELECT bool_and\( key IN \('Kind', 'Data'\) \) FROM jsonb_each\(data\)\) THEN RETURN FALSE; END IF; )?CASE ((?:WHEN data->>'Kind' = '\w+' THEN RETURN \w+\(data->'Data'\); )*)ELSE RETURN FALSE; END CASE; END;$`)
	rePgCase   = regexp.MustCompile(`WHEN data->>'Kind' = '(\w+)' THEN RETURN (\w+)\(data->'Data'\);`)
)

// sqlTuple splits the content of an SQL tuple of literals; ok=false on anything but literals
func sqlTuple(s string) (vals []string, ok bool) {
	i := 0
	for i < len(s) {
		for i < len(s) && (s[i] == ' ' || s[i] == ',') {
			i++
		}
		if i >= len(s) {
			break
		}
		if s[i] == '\'' {
			var b strings.Builder
			i++
			for {
				if i >= len(s) {
					return nil, false
				}
				if s[i] == '\'' {
					if i+1 < len(s) && s[i+1] == '\'' {
						b.WriteByte('\'')
						i += 2
						continue
					}
					i++
					break
				}
				b.WriteByte(s[i])
				i++
			}
			vals = append(vals, "(JStr "+coqStr(b.String())+")")
			continue
		}
		j := i
		for j < len(s) && s[j] != ',' {
			j++
		}
		lit := strings.TrimSpace(s[i:j])
		switch lit {
		case "true":
			vals = append(vals, "(JBool true)")
		case "false":
			vals = append(vals, "(JBool false)")
		default:
			vals = append(vals, "(JNum "+coqStr(lit)+")")
		}
		i = j
	}
	return vals, true
}

func sqlKeyList(s string) ([]string, bool) {
	var out []string
	for _, p := range strings.Split(s, ", ") {
		p = strings.TrimSpace(p)
		if len(p) < 2 || p[0] != '\'' || p[len(p)-1] != '\'' {
			return nil, false
		}
		out = append(out, p[1:len(p)-1])
	}
	return out, true
}

type pgScript struct {
	Funs     []string // Coq (name, vfun)
	Names    []string
	Checks   []string // Coq (table, column, fn)
	CheckRaw [][3]string
	Unparsed []string
}

// readValidators parses the validation functions and the CHECK lines of a script
func readValidators(text string) *pgScript {
	ps := &pgScript{}
	for _, m := range rePgFunc.FindAllStringSubmatch(text, -1) {
		name := m[1]
		body := strings.Join(strings.Fields(rePgComment.ReplaceAllString(m[2], "")), " ")
		term := ""
		if g := rePgBasic.FindStringSubmatch(body); g != nil {
			term = "VBasic " + coqStr(g[1])
		} else if g := rePgEnum.FindStringSubmatch(body); g != nil {
			vals, ok := sqlTuple(g[3])
			if ok {
				term = fmt.Sprintf("VEnum %s %s %s", coqStr(g[1]), coqBool(g[2] == "data::int"), coqList(vals))
			}
		} else if g := rePgArray.FindStringSubmatch(body); g != nil {
			crit := "None"
			if g[4] != "" {
				crit = "(Some " + g[4] + ")"
			}
			term = fmt.Sprintf("VArray %s %s %s %s", coqBool(g[1] != ""), coqBool(g[2] != ""), crit, coqStr(g[3]))
		} else if g := rePgMap.FindStringSubmatch(body); g != nil {
			term = "VMap " + coqStr(g[1])
		} else if g := rePgStruct.FindStringSubmatch(body); g != nil {
			keys := "None"
			ok := true
			if g[1] == "FALSE" {
				keys = "(Some [])"
			} else if g[1] != "TRUE" {
				var ks []string
				ks, ok = sqlKeyList(g[2])
				keys = "(Some " + coqStrList(ks) + ")"
			}
			var checks []string
			for _, f := range rePgField.FindAllStringSubmatch(g[3], -1) {
				checks = append(checks, fmt.Sprintf("(%s, %s)", coqStr(f[2]), coqStr(f[1])))
			}
			if ok {
				term = fmt.Sprintf("VStruct %s %s", keys, coqList(checks))
			}
		} else if g := rePgUnion.FindStringSubmatch(body); g != nil {
			var cases []string
			for _, c := range rePgCase.FindAllStringSubmatch(g[2], -1) {
				cases = append(cases, fmt.Sprintf("(%s, %s)", coqStr(c[1]), coqStr(c[2])))
			}
			term = fmt.Sprintf("VUnion %s %s", coqBool(g[1] != ""), coqList(cases))
		}
		if term == "" {
			ps.Unparsed = append(ps.Unparsed, name+": "+body)
			continue
		}
		ps.Funs = append(ps.Funs, fmt.Sprintf("(%s, %s)", coqStr(name), term))
		ps.Names = append(ps.Names, name)
	}
	for _, m := range rePgCheck.FindAllStringSubmatch(text, -1) {
		if m[2] != m[4] {
			ps.Unparsed = append(ps.Unparsed, m[0])
			continue
		}
		ps.Checks = append(ps.Checks, fmt.Sprintf("(%s, %s, %s)", coqStr(m[1]), coqStr(m[2]), coqStr(m[3])))
		ps.CheckRaw = append(ps.CheckRaw, [3]string{m[1], m[2], m[3]})
	}
	// every mention of a validator outside what was read is something the reader does not understand
	if n := strings.Count(text, "CREATE OR REPLACE FUNCTION"); n != len(ps.Funs)+countPrefix(ps.Unparsed, "gomacro_validate_json_") {
		ps.Unparsed = append(ps.Unparsed, fmt.Sprintf("%d CREATE OR REPLACE FUNCTION statements, %d read", n, len(ps.Funs)))
	}
	if n := strings.Count(text, "_gomacro CHECK"); n != len(ps.Checks) {
		ps.Unparsed = append(ps.Unparsed, fmt.Sprintf("%d _gomacro CHECK constraints, %d read", n, len(ps.Checks)))
	}
	return ps
}

func countPrefix(l []string, p string) int {
	n := 0
	for _, s := range l {
		if strings.HasPrefix(s, p) {
			n++
		}
	}
	return n
}

// ---- synthesised model files with rich jsonb columns ----

type jsynth struct {
	r      *rng
	b      *strings.Builder
	names  []string // named types usable in expressions
	n      int
	fields int
}

func (s *jsynth) fresh(prefix string) string {
	s.n++
	return fmt.Sprintf("%s%d", prefix, s.n)
}

func (s *jsynth) expr(depth int) string {
	leaf := []string{"int", "string", "bool", "float64", "int64", "time.Time", "Color", "Level", "Mark", "Name", "Count"}
	if depth <= 0 || s.r.chance(2, 5) {
		if len(s.names) > 0 && s.r.chance(1, 2) {
			return pick(s.r, s.names)
		}
		return pick(s.r, leaf)
	}
	switch s.r.intn(6) {
	case 0, 1:
		return "[]" + s.expr(depth-1)
	case 2:
		return fmt.Sprintf("[%d]%s", s.r.intn(4), s.expr(depth-1))
	case 3:
		return "map[string]" + s.expr(depth-1)
	case 4:
		return "map[" + pick(s.r, []string{"int", "Color", "Name"}) + "]" + s.expr(depth-1)
	default:
		if len(s.names) > 0 {
			return pick(s.r, s.names)
		}
		return pick(s.r, leaf)
	}
}

func (s *jsynth) structBody() string {
	var b strings.Builder
	b.WriteString("struct {\n")
	nf := s.r.intn(5)
	for i := 0; i < nf; i++ {
		s.fields++
		name := fmt.Sprintf("F%d", s.fields)
		tag := ""
		switch s.r.intn(8) {
		case 0:
			tag = fmt.Sprintf(" `json:\"f_%d\"`", s.fields)
		case 1:
			tag = fmt.Sprintf(" `json:\"f_%d,omitempty\"`", s.fields)
		case 2:
			tag = " `json:\"-\"`"
		case 3:
			name = fmt.Sprintf("f%d", s.fields) // unexported
		}
		fmt.Fprintf(&b, "\t%s %s%s\n", name, s.expr(2), tag)
	}
	b.WriteString("}")
	return b.String()
}

func (s *jsynth) define() {
	switch s.r.intn(7) {
	case 0, 1, 2:
		n := s.fresh("S")
		fmt.Fprintf(s.b, "type %s %s\n\n", n, s.structBody())
		s.names = append(s.names, n)
	case 3:
		n := s.fresh("L")
		fmt.Fprintf(s.b, "type %s []%s\n\n", n, s.expr(1))
		s.names = append(s.names, n)
	case 4:
		n := s.fresh("A")
		fmt.Fprintf(s.b, "type %s [%d]%s\n\n", n, s.r.intn(4), s.expr(1))
		s.names = append(s.names, n)
	case 5:
		n := s.fresh("Dc")
		fmt.Fprintf(s.b, "type %s map[%s]%s\n\n", n, pick(s.r, []string{"string", "string", "int", "Level"}), s.expr(1))
		s.names = append(s.names, n)
	default:
		u := s.fresh("U")
		fmt.Fprintf(s.b, "type %s interface{ is%s() }\n\n", u, u)
		nm := 1 + s.r.intn(3)
		for i := 0; i < nm; i++ {
			m := s.fresh("V")
			switch s.r.intn(4) {
			case 0:
				fmt.Fprintf(s.b, "type %s %s\n", m, pick(s.r, []string{"int", "string", "[]int", "map[string]bool"}))
			default:
				fmt.Fprintf(s.b, "type %s %s\n", m, s.structBody())
			}
			fmt.Fprintf(s.b, "func (%s) is%s() {}\n\n", m, u)
		}
		s.names = append(s.names, u)
	}
}

func synthJSON(r *rng, idx int) *modSpec {
	var b strings.Builder
	b.WriteString("package models\n\nimport \"time\"\n\nvar _ time.Time\n\n")
	b.WriteString("type Color int\n\nconst (\n\tRed Color = iota\n\tGreen\n\tBlue\n)\n\n")
	b.WriteString("type Level string\n\nconst (\n\tLow Level = \"low\"\n\tHigh Level = \"it's high\"\n)\n\n")
	b.WriteString("type Mark uint16\n\nconst (\n\tM1 Mark = 1\n\tM5 Mark = 5\n)\n\n")
	b.WriteString("type Name string\ntype Count int64\n\n")
	s := &jsynth{r: r, b: &b}
	nd := 4 + r.intn(8)
	for i := 0; i < nd; i++ {
		s.define()
	}
	nt := 1 + r.intn(3)
	for t := 0; t < nt; t++ {
		tn := pick(r, []string{"Item", "UserAccount", "HTTPLog", "Order", "Tag"}) + fmt.Sprint(t)
		fmt.Fprintf(&b, "type Id%s int64\n\ntype %s struct {\n\tId Id%s\n", tn, tn, tn)
		nc := 1 + r.intn(5)
		for c := 0; c < nc; c++ {
			ty := ""
			if r.chance(3, 4) {
				ty = pick(r, s.names)
			} else {
				ty = s.expr(2)
			}
			fmt.Fprintf(&b, "\tC%d %s\n", c, ty)
		}
		b.WriteString("}\n\n")
	}
	return &modSpec{Name: fmt.Sprintf("json%d", idx), ModPath: "example.com/org/models", Target: "models.go",
		Files: []modFile{{"models.go", b.String()}}}
}

func corpusPgJSON() []*modSpec {
	mk := func(name, src string, extra ...modFile) *modSpec {
		return &modSpec{Name: name, ModPath: "example.com/org/models", Target: "models.go",
			Files: append([]modFile{{"models.go", src}}, extra...)}
	}
	shapes := "package models\n\nimport \"time\"\n\ntype Color int\n\nconst (\n\tRed Color = iota\n\tGreen\n)\n\ntype Level string\n\nconst (\n\tLow Level = \"low\"\n\tHigh Level = \"it's high\"\n)\n\n" +
		"type Point struct {\n\tX int\n\tY int\n}\n\ntype Strings []string\ntype Levels []Level\ntype Grid [2][3]int\ntype ByName map[string]Strings\ntype ByColor map[Color]Point\n\n" +
		"type Payload struct {\n\tName string `json:\"name\"`\n\tWhen time.Time\n\tTags Strings\n\tP Point\n\tOpt map[string]int `json:\"opt,omitempty\"`\n\tC Color\n\tL Level\n\tHidden int `json:\"-\"`\n\tprivate int\n\tG Grid\n\tPts []Point\n\tNone [0]Point\n\tPair [2]Point\n\tBy ByName\n\tBc ByColor\n}\n\n" +
		"type Payloads []Payload\ntype Dict map[string]Payload\ntype Pairs [2]Payload\n\n" +
		"type IdItem int64\n\ntype Item struct {\n\tId IdItem\n\tP Payload\n\tPs Payloads\n\tD Dict\n\tPr Pairs\n\tLv Levels\n\tG Grid\n\tInline []Point\n\tInlineMap map[string][]Level\n\tPlain Strings\n}\n"
	unions := "package models\n\ntype Shape interface{ isShape() }\ntype Circle struct{ R float64 }\ntype Square struct {\n\tSide int\n\tInner Deco\n}\ntype Tagged int\nfunc (Circle) isShape() {}\nfunc (Square) isShape() {}\nfunc (Tagged) isShape() {}\n\n" +
		"type Deco interface{ isDeco() }\ntype Plain struct{}\ntype Striped struct{ Colors []string }\nfunc (Plain) isDeco() {}\nfunc (Striped) isDeco() {}\n\n" +
		"type Shapes []Shape\ntype ShapeMap map[string]Shape\ntype Box struct {\n\tS Shape\n\tAll Shapes\n\tNamed ShapeMap\n\tLabel string\n}\n\n" +
		"type IdDrawing int64\n\ntype Drawing struct {\n\tId IdDrawing\n\tMain Box\n\tList Shapes\n\tBy ShapeMap\n\tOne Shape\n}\n"
	return []*modSpec{
		mk("pg-string-enum-with-backslash-and-quote", "package models\n\ntype Sep string\n\nconst (\n\tBack Sep = \"\\\\\"\n\tWin Sep = \"C:\\\\dir\"\n\tQuote Sep = \"it's\"\n\tSlash Sep = \"/\"\n)\n\ntype Path struct {\n\tS Sep\n\tAll []Sep\n}\n\ntype IdDoc int64\n\ntype Doc struct {\n\tId IdDoc\n\tP Path\n}\n"),
		mk("json-column-of-an-imported-plain-struct", "package models\n\nimport \"example.com/org/models/shared\"\n\ntype IdUser int64\n\ntype User struct {\n\tId IdUser\n\tName string\n\tHome shared.Address\n}\n",
			modFile{"shared/shared.go", "package shared\n\ntype Address struct {\n\tStreet string\n\tCity string `json:\"city\"`\n\tTags []string\n\tGeo Point\n}\n\ntype Point struct{ Lat, Lng float64 }\n"}),
		mk("json-column-of-an-imported-struct", "package models\n\nimport \"example.com/org/models/shared\"\n\ntype IdUser int64\n\ntype User struct {\n\tId IdUser\n\tName string\n\tHome shared.Address\n\tLast shared.Event\n}\n",
			modFile{"shared/shared.go", "package shared\n\ntype Address struct {\n\tStreet string\n\tCity string `json:\"city\"`\n\tTags []string\n}\n\ntype Event interface{ isEvent() }\n\ntype Login struct{ At string }\n\ntype Logout struct{ Reason string }\n\nfunc (Login) isEvent() {}\nfunc (Logout) isEvent() {}\n"}),
		mk("json-embedded-with-option-only-tags", "package models\n\ntype Meta struct {\n\tAuthor string\n\tVersion int\n}\n\ntype Extra struct{ Note string `json:\"note\"` }\n\ntype Doc struct {\n\tMeta `json:\",omitempty\"`\n\tExtra `json:\",inline\"`\n\tTitle string\n}\n\ntype IdArticle int64\n\ntype Article struct {\n\tId IdArticle\n\tContent Doc\n\tHistory []Doc\n}\n"),
		mk("json-shapes", shapes),
		mk("json-unions", unions),
		mk("json-shared-shapes", "package models\n\ntype Meta map[string]int\n\ntype Address struct {\n\tStreet string\n\tTags []string\n}\n\ntype Article struct {\n\tId int64\n\tMeta Meta\n\tBilling Address\n\tShipping Address\n}\n\ntype Comment struct {\n\tId int64\n\tMeta Meta\n\tFrom Address\n}\n"),
		withClass(mk("json-gomacro-ignored-on-the-wire", "package models\n\ntype Account struct {\n\tLogin string `json:\"login\"`\n\tCache []int `gomacro:\"ignore\"`\n\tNotes map[string]string `json:\"notes\" gomacro:\"ignore\"`\n}\n\ntype IdUser int64\n\ntype User struct {\n\tId IdUser\n\tA Account\n}\n"), "gomacro-ignored-field-on-the-wire"),
		mk("json-option-only-tags", "package models\n\ntype Article struct {\n\tTitle string `json:\"title\"`\n\tNote string `json:\",omitempty\"`\n\tTags []string `json:\",omitempty\"`\n\tPlain int\n}\n\ntype IdPost int64\n\ntype Post struct {\n\tId IdPost\n\tA Article\n}\n"),
		withClass(mk("json-bytes", "package models\n\ntype Blob struct {\n\tName string\n\tData []byte\n}\n\ntype IdDoc int64\n\ntype Doc struct {\n\tId IdDoc\n\tB Blob\n}\n"), "byte-slice-in-json"),
		withClass(mk("json-named-time", "package models\n\nimport \"time\"\n\ntype Date time.Time\n\ntype Span struct {\n\tFrom Date\n\tNote string\n}\n\ntype IdEvent int64\n\ntype Event struct {\n\tId IdEvent\n\tS Span\n}\n"), "named-time-type-without-json-methods"),
		withClass(mk("json-name-collision", "package models\n\nimport \"example.com/org/models/modelsext\"\n\ntype Info struct {\n\tName string\n}\n\ntype Pair struct {\n\tA Info\n\tB modelsext.Info\n}\n\ntype IdRow int64\n\ntype Row struct {\n\tId IdRow\n\tP Pair\n}\n",
			modFile{"modelsext/ext.go", "package modelsext\n\ntype Info struct {\n\tCount int\n}\n"}), "validator-name-collision"),
		withClass(mk("json-float-enum", "package models\n\ntype Ratio float64\n\nconst (\n\tHalf Ratio = 0.5\n\tFull Ratio = 1\n)\n\ntype Conf struct {\n\tR Ratio\n\tNote string\n}\n\ntype IdSetting int64\n\ntype Setting struct {\n\tId IdSetting\n\tC Conf\n}\n"), "enum-neither-integer-nor-string"),
	}
}

func runC04(e *env) {
	e.m.Rule = "corpus + seeded synthesised model files (tables whose columns are structs, named and inline slices / fixed arrays / maps, enums, time, nested unions): " +
		"the script is parsed into the six validator templates (any other text is reported) and compared function by function and CHECK by CHECK with the model; " +
		"every document written by the real Go encoder for a jsonb column (test binary of C02: random values of the table struct, the column's key) is evaluated in Coq under the three-valued reading of the PL/pgSQL " +
		"(must not be false nor raise), then every single-point corruption of it from the five classes, generated in Coq from the wire shape of the Go type at every position (first 2 entries of arrays and maps), must evaluate to false; " +
		"one evaluation = one document (with all its corruptions); non-trivial = document of a column holding a container or a union"
	e.m.Extra = map[string]interface{}{"mismatch_means": "model",
		"assumptions": []string{"Sem/PgSem.v is a reading of the PostgreSQL manual (jsonb operators, strict comparisons, bool_and, left-to-right AND/OR, CHECK passes on NULL): no PostgreSQL server is available offline to validate it",
			"the wire shape (Sem/GoJson.v) used to place the corruptions is validated against the real encoder by C02 and again here (every document must conform to it)"}}
	specs := corpusPgJSON()
	n, samples := 8, 6
	if e.thorough() {
		n, samples = 150, 16
	}
	for i := 0; i < n; i++ {
		specs = append(specs, synthJSON(e.r, i))
	}
	if e.thorough() {
		for i := 0; i < 20; i++ {
			m, _ := synthSQL(e.r, i, false)
			specs = append(specs, m)
		}
	}
	obs := observeAll(specs, "gounions,sql", 14)
	results := make([]*binResult, len(specs))
	var wg sync.WaitGroup
	sem := make(chan struct{}, 8)
	for i, o := range obs {
		if o.LoadErr != "" || o.Outcome != "ok" || o.Gen["gounions"].Outcome != "ok" || o.Gen["sql"].Outcome != "ok" {
			continue
		}
		wg.Add(1)
		sem <- struct{}{}
		go func(i int, o *obsResult) {
			defer wg.Done()
			defer func() { <-sem }()
			results[i] = runTestBinary(specs[i], o, e.seed+int64(i), samples, false)
		}(i, o)
	}
	wg.Wait()
	var cases []string
	var inputs []interface{}
	flush := func() {
		if len(cases) > 0 {
			e.detailFn = "details"
			e.writeCases2(fmt.Sprintf("cases_C04_%d", len(e.m.CaseFiles)), anaHeader+"From GM Require Import Sem.GoJson Sem.PgSem Model.SqlJson Corr.Check_C04.\n", "mismatches", "prop_failures", cases, inputs)
			cases, inputs = nil, nil
		}
	}
	for i, r := range results {
		spec, o := specs[i], obs[i]
		if o.LoadErr != "" {
			e.m.count("load_error")
			e.m.sampleErr(spec.Name + ": " + o.LoadErr)
			// an input of the harness that is not a well-typed package is a defect of the harness, not a silent skip
			e.m.fail(oracleFailure{What: "the input module " + spec.Name + " does not load (harness input not well-typed): " + o.LoadErr, Input: spec, NoInput: true})
			continue
		}
		if o.Outcome != "ok" {
			e.m.count("analysis_" + o.Outcome)
			e.m.sampleErr(spec.Name + ": " + o.Msg)
			continue
		}
		e.m.count("sql_" + o.Gen["sql"].Outcome)
		if o.Gen["sql"].Outcome == "crash" {
			e.m.fail(oracleFailure{What: "the SQL generator dies: " + o.Gen["sql"].Msg, Input: spec, Class: spec.Class})
		}
		// without test binary (it needs the Go generators to compile for the module) the script is still compared with
		// the model, without documents
		var records []binRecord
		if r == nil {
			e.m.count("no_test_binary")
		} else if r.BuildErr != "" {
			e.m.count("test_binary_does_not_build")
		} else {
			records = r.Records
		}
		ps := readValidators(o.Gen["sql"].Text)
		if len(ps.Unparsed) > 0 {
			e.m.fail(oracleFailure{What: "the script contains validator text the reader does not understand (outside the six templates): " + ps.Unparsed[0], Input: spec, Got: strings.Join(ps.Unparsed, "\n"), NoInput: true})
		}
		// table struct -> SQL table name
		byTable := map[string]structObs{}
		for _, st := range o.Structs {
			if st.Pkg == o.RootPkg {
				byTable[gen.SQLTableName(asql.TableName(st.Local))] = st
			}
		}
		var docs []string
		ndocs := 0
		for _, rec := range records {
			if rec.Kind != "roundtrip" || rec.JSON == "" {
				continue
			}
			table := gen.SQLTableName(asql.TableName(rec.Type))
			st, ok := byTable[table]
			if !ok || st.Local != rec.Type {
				continue
			}
			var obj map[string]json.RawMessage
			if json.Unmarshal([]byte(rec.JSON), &obj) != nil {
				continue
			}
			for _, ck := range ps.CheckRaw {
				if ck[0] != table {
					continue
				}
				for _, f := range st.Fields {
					if f.Name != ck[1] {
						continue
					}
					raw, ok := obj[f.JSON]
					if !ok {
						continue
					}
					j, err := coqJSON(raw)
					if err != nil {
						continue
					}
					docs = append(docs, fmt.Sprintf("(%s, %s, %s)", coqStr(table), coqStr(ck[1]), j))
					ndocs++
					e.m.Evaluations++
					if len(raw) > 0 && (raw[0] == '{' || raw[0] == '[') {
						e.m.Nontrivial++
					}
				}
			}
		}
		e.m.count(fmt.Sprintf("functions_%s", bucket(len(ps.Funs))))
		e.m.count(fmt.Sprintf("json_columns_%s", bucket(len(ps.Checks))))
		if ndocs > 0 {
			e.m.sample(map[string]interface{}{"module": spec.Name, "functions": len(ps.Funs), "checks": len(ps.Checks), "documents": ndocs})
		}
		cases = append(cases, fmt.Sprintf("{| c4_prog := %s;\n c4_enums := %s;\n c4_ana := %s;\n c4_funs := %s;\n c4_checks := %s;\n c4_docs := %s |}",
			o.Facts, o.Enums, o.Ana, coqListNL(ps.Funs), coqListNL(ps.Checks), coqListNL(docs)))
		inputs = append(inputs, map[string]interface{}{"module": spec, "script": o.Gen["sql"].Text, "class": spec.Class})
		if len(cases) == 2 {
			flush()
		}
	}
	flush()
}

func bucket(n int) string {
	switch {
	case n == 0:
		return "0"
	case n <= 2:
		return "1-2"
	case n <= 5:
		return "3-5"
	case n <= 10:
		return "6-10"
	default:
		return "11+"
	}
}
