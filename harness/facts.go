package main

// E1: facts about a loaded program, extracted from go/packages + go/types + go/ast only.
// Nothing here calls into gomacro.

import (
	"encoding/json"
	"fmt"
	"go/ast"
	"go/constant"
	"go/token"
	"go/types"
	"sort"
	"strings"

	"golang.org/x/tools/go/packages"
)

type factsCtx struct {
	root   *packages.Package
	pkgs   []*packages.Package
	byPath map[string]*packages.Package
	named  map[string]*types.Named // collected defined types by id
	order  []string
}

func newFacts(root *packages.Package) *factsCtx {
	fx := &factsCtx{root: root, pkgs: allPackages(root), byPath: map[string]*packages.Package{}, named: map[string]*types.Named{}}
	for _, p := range fx.pkgs {
		fx.byPath[p.PkgPath] = p
	}
	return fx
}

func tyID(t types.Type) string { return types.TypeString(t, nil) }

var basicKinds = map[types.BasicKind]string{
	types.Bool: "KBool", types.Int: "KInt", types.Int8: "KInt8", types.Int16: "KInt16", types.Int32: "KInt32", types.Int64: "KInt64",
	types.Uint: "KUint", types.Uint8: "KUint8", types.Uint16: "KUint16", types.Uint32: "KUint32", types.Uint64: "KUint64", types.Uintptr: "KUintptr",
	types.Float32: "KFloat32", types.Float64: "KFloat64", types.Complex64: "KComplex64", types.Complex128: "KComplex128",
	types.String: "KString", types.UnsafePointer: "KUnsafePointer",
}

func coqKind(b *types.Basic) string {
	if k, ok := basicKinds[b.Kind()]; ok {
		return k
	}
	return "KUntyped"
}

// coqTy renders a type as a gty term and records the defined types it mentions.
func (fx *factsCtx) coqTy(t types.Type) string {
	t = types.Unalias(t)
	switch t := t.(type) {
	case *types.Basic:
		return "(GBasic " + coqKind(t) + ")"
	case *types.Named:
		fx.note(t)
		return "(GNamed " + coqStr(tyID(t)) + ")"
	case *types.Pointer:
		return "(GPointer " + fx.coqTy(t.Elem()) + ")"
	case *types.Array:
		return fmt.Sprintf("(GArray %s %s)", coqZ(t.Len()), fx.coqTy(t.Elem()))
	case *types.Slice:
		return "(GSlice " + fx.coqTy(t.Elem()) + ")"
	case *types.Map:
		return fmt.Sprintf("(GMap %s %s)", fx.coqTy(t.Key()), fx.coqTy(t.Elem()))
	case *types.Struct:
		return "(GStructLit " + coqStr(tyID(t)) + ")"
	default:
		return "(GOther " + coqStr(tyID(t)) + ")"
	}
}

func (fx *factsCtx) note(n *types.Named) {
	id := tyID(n)
	if _, ok := fx.named[id]; ok {
		return
	}
	fx.named[id] = n
	fx.order = append(fx.order, id)
	// walk what the declaration mentions
	for i := 0; i < n.TypeArgs().Len(); i++ {
		fx.coqTy(n.TypeArgs().At(i))
	}
	switch u := n.Underlying().(type) {
	case *types.Struct:
		for i := 0; i < u.NumFields(); i++ {
			fx.coqTy(u.Field(i).Type())
		}
	case *types.Pointer:
		fx.coqTy(u.Elem())
	case *types.Array:
		fx.coqTy(u.Elem())
	case *types.Slice:
		fx.coqTy(u.Elem())
	case *types.Map:
		fx.coqTy(u.Key())
		fx.coqTy(u.Elem())
	}
}

const timeStructString = "struct{wall uint64; ext int64; loc *time.Location}"

func msigs(ms *types.MethodSet) []string {
	var out []string
	for i := 0; i < ms.Len(); i++ {
		f := ms.At(i).Obj().(*types.Func)
		out = append(out, fmt.Sprintf("{| ms_id := %s; ms_sig := %s |}", coqStr(f.Id()), coqStr(types.TypeString(f.Type(), nil))))
	}
	return out
}

func ifaceSigs(it *types.Interface) []string {
	var out []string
	for i := 0; i < it.NumMethods(); i++ {
		f := it.Method(i)
		out = append(out, fmt.Sprintf("{| ms_id := %s; ms_sig := %s |}", coqStr(f.Id()), coqStr(types.TypeString(f.Type(), nil))))
	}
	return out
}

func (fx *factsCtx) coqNamed(n *types.Named) string {
	obj := n.Obj()
	pkgPath, pkgName := "", ""
	if obj.Pkg() != nil {
		pkgPath, pkgName = obj.Pkg().Path(), obj.Pkg().Name()
	}
	var targs []string
	for i := 0; i < n.TypeArgs().Len(); i++ {
		targs = append(targs, fx.coqTy(n.TypeArgs().At(i)))
	}
	var under string
	switch u := n.Underlying().(type) {
	case *types.Basic:
		under = "(UBasic " + coqKind(u) + ")"
	case *types.Struct:
		var fs []string
		for i := 0; i < u.NumFields(); i++ {
			f := u.Field(i)
			fs = append(fs, fmt.Sprintf("{| f_name := %s; f_type := %s; f_tag := %s; f_embedded := %s; f_exported := %s |}",
				coqStr(f.Name()), fx.coqTy(f.Type()), coqStr(u.Tag(i)), coqBool(f.Embedded()), coqBool(f.Exported())))
		}
		under = "(UStruct " + coqList(fs) + ")"
	case *types.Interface:
		under = "(UInterface " + coqList(ifaceSigs(u)) + ")"
	case *types.Pointer:
		under = "(UPointer " + fx.coqTy(u.Elem()) + ")"
	case *types.Array:
		under = fmt.Sprintf("(UArray %s %s)", coqZ(u.Len()), fx.coqTy(u.Elem()))
	case *types.Slice:
		under = "(USlice " + fx.coqTy(u.Elem()) + ")"
	case *types.Map:
		under = fmt.Sprintf("(UMap %s %s)", fx.coqTy(u.Key()), fx.coqTy(u.Elem()))
	default:
		under = "(UOther " + coqStr(tyID(u)) + ")"
	}
	inScope := false
	if obj.Pkg() != nil && n.TypeArgs().Len() == 0 {
		if o := obj.Pkg().Scope().Lookup(obj.Name()); o == obj {
			inScope = true
		}
	}
	return fmt.Sprintf("{| n_id := %s; n_pkg := %s; n_pkg_name := %s; n_name := %s; n_targs := %s; n_under := %s; n_exported := %s; n_is_time := %s; n_mset := %s; n_in_scope := %s |}",
		coqStr(tyID(n)), coqStr(pkgPath), coqStr(pkgName), coqStr(obj.Name()), coqList(targs), under,
		coqBool(obj.Exported()), coqBool(n.Underlying().String() == timeStructString),
		coqList(msigs(types.NewMethodSet(n))), coqBool(inScope))
}

// candidates: the nodes of the file containing pos, in ast.Inspect pre-order
func candidates(pa *packages.Package, pos token.Pos) []string {
	tf := pa.Fset.File(pos)
	var out []string
	for _, file := range pa.Syntax {
		if pa.Fset.File(file.Pos()) != tf {
			continue
		}
		ast.Inspect(file, func(n ast.Node) bool {
			if n == nil {
				return false
			}
			if n.Pos() <= pos && pos < n.End() {
				kind := "NOtherNode"
				switch n.(type) {
				case *ast.File:
					kind = "NFile"
				case *ast.GenDecl:
					kind = "NGenDecl"
				case *ast.ValueSpec:
					kind = "NValueSpec"
				case *ast.TypeSpec:
					kind = "NTypeSpec"
				case *ast.Ident:
					kind = "NIdent"
				}
				out = append(out, fmt.Sprintf("{| cd_kind := %s; cd_pos := %s; cd_end := %s |}", kind, coqZ(int64(n.Pos())), coqZ(int64(n.End()))))
			}
			return true
		})
	}
	return out
}

// trailing comment of the ValueSpec declaring obj, found by walking the declarations (not by position)
func constComment(pa *packages.Package, obj *types.Const) string {
	for _, file := range pa.Syntax {
		for _, d := range file.Decls {
			gd, ok := d.(*ast.GenDecl)
			if !ok || gd.Tok != token.CONST {
				continue
			}
			for _, sp := range gd.Specs {
				vs := sp.(*ast.ValueSpec)
				for _, name := range vs.Names {
					if pa.TypesInfo.Defs[name] == obj {
						if vs.Comment == nil {
							return ""
						}
						return strings.TrimSpace(vs.Comment.Text())
					}
				}
			}
		}
	}
	return ""
}

func coqCval(v constant.Value) string {
	switch v.Kind() {
	case constant.Int:
		if i, ok := constant.Int64Val(v); ok {
			return "(CInt " + coqZ(i) + ")"
		}
		return "(CBigInt " + coqStr(v.ExactString()) + ")"
	case constant.String:
		return "(CStr " + coqStr(constant.StringVal(v)) + ")"
	case constant.Bool:
		return "(CBool " + coqBool(constant.BoolVal(v)) + ")"
	case constant.Float:
		// the decimal form encoding/json writes for the float64 value (the exact form, a fraction, is kept in c_exact)
		f, _ := constant.Float64Val(v)
		if b, err := json.Marshal(f); err == nil {
			return "(CFloat " + coqStr(string(b)) + ")"
		}
		return "(CFloat " + coqStr(v.ExactString()) + ")"
	default:
		return "(COtherVal " + coqStr(v.ExactString()) + ")"
	}
}

func (fx *factsCtx) coqPkg(p *packages.Package, withConsts bool) string {
	var imports []string
	for path := range p.Imports {
		imports = append(imports, path)
	}
	sort.Strings(imports)
	var consts, typeNames []string
	scope := p.Types.Scope()
	for _, name := range scope.Names() {
		switch obj := scope.Lookup(name).(type) {
		case *types.Const:
			if !withConsts {
				continue
			}
			ty := "None"
			if n, ok := obj.Type().(*types.Named); ok {
				fx.note(n)
				ty = "(Some " + coqStr(tyID(n)) + ")"
			}
			consts = append(consts, fmt.Sprintf("{| c_name := %s; c_type := %s; c_val := %s; c_exact := %s; c_exported := %s; c_comment := %s; c_pos := %s; c_cands := %s |}",
				coqStr(obj.Name()), ty, coqCval(obj.Val()), coqStr(obj.Val().ExactString()), coqBool(obj.Exported()),
				coqStr(constComment(p, obj)), coqZ(int64(obj.Pos())), coqList(candidates(p, obj.Pos()))))
		case *types.TypeName:
			if n, ok := obj.Type().(*types.Named); ok {
				if withConsts {
					fx.note(n)
					typeNames = append(typeNames, coqStr(tyID(n)))
				}
			}
		}
	}
	var scopeAll []string
	if withConsts {
		scopeAll = scope.Names()
	}
	return fmt.Sprintf("{| p_path := %s; p_name := %s; p_imports := %s; p_consts := %s; p_type_names := %s; p_scope := %s |}",
		coqStr(p.PkgPath), coqStr(p.Name), coqStrList(imports), coqListNL(consts), coqList(typeNames), coqStrList(scopeAll))
}

// coqProg renders the whole program. Constants and scope type names are listed for user packages only
// (the walk never enters other packages).
func (fx *factsCtx) coqProg() string {
	prefix := userPrefix(fx.root.PkgPath)
	var pkgs []string
	for _, p := range fx.pkgs {
		user := prefix == "" || strings.HasPrefix(p.PkgPath, prefix)
		pkgs = append(pkgs, fx.coqPkg(p, user))
	}
	// defined types, closed under mention (note() may add while we render)
	var tys []string
	for i := 0; i < len(fx.order); i++ {
		tys = append(tys, fx.coqNamed(fx.named[fx.order[i]]))
	}
	return fmt.Sprintf("{| pr_root := %s;\n pr_pkgs := %s;\n pr_types := %s |}", coqStr(fx.root.PkgPath), coqListNL(pkgs), coqListNL(tys))
}
