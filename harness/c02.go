package main

import (
	"path"
	"fmt"
	"strings"
	"sync"
)

func init() { commands["C02"] = runC02 }

func corpusJSON() []*modSpec {
	mk := func(name, src string, extra ...modFile) *modSpec {
		return &modSpec{Name: name, ModPath: "example.com/org/models", Target: "models.go",
			Files: append([]modFile{{"models.go", src}}, extra...)}
	}
	return []*modSpec{
		mk("json-union-fields", "package models\n\nimport \"time\"\n\ntype U interface{ isU() }\ntype A struct {\n\tX int `json:\"x\"`\n\tS []string\n}\ntype B struct{ T time.Time }\ntype N int\ntype L []int\n\nfunc (A) isU() {}\nfunc (B) isU() {}\nfunc (N) isU() {}\nfunc (L) isU() {}\n\ntype S struct {\n\tV U `json:\"v\"`\n\tHidden int `json:\"-\"`\n\tOmit string `json:\"omit,omitempty\"`\n\tunexp int\n\tW U\n\tName string\n}\n\ntype List []U\ntype Dict map[string]U\ntype ByID map[int]U\n\ntype Outer struct {\n\tInner S\n\tItems List\n\tD Dict\n\tI ByID\n\tMany []S\n}\n"),
		mk("json-gomacro-ignored-sibling", "package models\n\ntype Shape interface{ isShape() }\ntype Circle struct{ R int }\ntype Square struct{ S int }\n\nfunc (Circle) isShape() {}\nfunc (Square) isShape() {}\n\ntype Drawing struct {\n\tMain Shape\n\tTitle string `json:\"title\"`\n\tRevision int `gomacro:\"ignore\"`\n\tAuthor string `json:\"author\" gomacro:\"ignore\"`\n\tNotes []string `gomacro:\"ignore\" json:\"notes,omitempty\"`\n\tSecret string `json:\"-\"`\n}\n"),
		mk("json-unions-sharing-their-first-letter", "package models\n\ntype Shape interface{ isShape() }\ntype Style interface{ isStyle() }\ntype Circle struct{ R int }\ntype Square struct{ S int }\ntype Bold struct{ W int }\n\nfunc (Circle) isShape() {}\nfunc (Square) isShape() {}\nfunc (Circle) isStyle() {}\nfunc (Bold) isStyle() {}\n\ntype Drawing struct {\n\tShape Shape\n\tStyle Style\n}\n"),
		mk("json-embedded-with-option-only-tag", "package models\n\ntype Shape interface{ isShape() }\ntype Circle struct{ R int }\n\nfunc (Circle) isShape() {}\n\ntype Meta struct {\n\tAuthor string\n\tRev int `json:\"rev\"`\n}\n\ntype WithUnion struct {\n\tInner Shape\n\tNote string\n}\n\ntype Doc struct {\n\tMeta `json:\",omitempty\"`\n\tTitle string\n\tMain Shape\n}\n\ntype Wrapper struct {\n\tWithUnion `json:\",omitempty\"`\n\tTitle string\n}\n\ntype Plain struct {\n\tMeta\n\tMain Shape\n}\n"),
		mk("json-named-containers-of-structs-holding-unions", "package models\n\ntype Registry map[string]Holder\n\ntype Holders []Holder\n\ntype Grid [2]Holder\n\ntype Top struct {\n\tItems Registry `json:\"items\"`\n\tList Holders\n\tG Grid\n\tName string\n}\n", modFile{"holder.go", "package models\n\ntype Shape interface{ isShape() }\ntype Circle struct{ R int }\ntype Square struct{ S int }\n\nfunc (Circle) isShape() {}\nfunc (Square) isShape() {}\n\ntype Holder struct {\n\tS Shape\n\tN int\n}\n"}),
		mk("json-named-map-of-structs-holding-unions", "package models\n\ntype Registry map[string]Holder\n\ntype Top struct {\n\tItems Registry `json:\"items\"`\n\tName string\n}\n", modFile{"holder.go", "package models\n\ntype Shape interface{ isShape() }\ntype Circle struct{ R int }\ntype Square struct{ S int }\n\nfunc (Circle) isShape() {}\nfunc (Square) isShape() {}\n\ntype Holder struct {\n\tS Shape\n\tN int\n}\n"}),
		mk("json-named-slice-of-structs-holding-unions", "package models\n\ntype Holders []Holder2\n\ntype Top2 struct {\n\tList Holders\n\tName string\n}\n", modFile{"holder.go", "package models\n\ntype Shape interface{ isShape() }\ntype Circle struct{ R int }\ntype Square struct{ S int }\n\nfunc (Circle) isShape() {}\nfunc (Square) isShape() {}\n\ntype Holder2 struct {\n\tS Shape\n\tN int\n}\n"}),
		mk("json-shared-member", "package models\n\ntype U1 interface{ is1() }\ntype U2 interface{ is2() }\ntype A struct{ X int }\ntype B struct{ Y string }\n\nfunc (A) is1() {}\nfunc (A) is2() {}\nfunc (B) is2() {}\n\ntype S struct {\n\tV1 U1\n\tV2 U2\n\tL []int\n\tM map[string]A\n}\n"),
		mk("json-fixed-array-of-unions", "package models\n\ntype U interface{ isU() }\ntype A struct{ X int }\nfunc (A) isU() {}\n\ntype Fixed [3]U\n\ntype S struct{ F Fixed }\n"),
		mk("json-union-behind-pointer", "package models\n\ntype Drawing struct {\n\tName string\n\tTop *Layer\n\tAll []*Layer\n\tByName map[string]*Layer\n}\n",
			modFile{"layer.go", "package models\n\ntype Shape interface{ isShape() }\ntype Circle struct{ R int }\ntype Square struct{ S int }\n\nfunc (Circle) isShape() {}\nfunc (Square) isShape() {}\n\ntype Layer struct {\n\tContent Shape\n\tZ int\n}\n"}),
		mk("json-member-through-a-promoted-method", "package models\n\ntype Shape interface{ isShape() }\n\ntype base struct{}\n\nfunc (base) isShape() {}\n\ntype Circle struct {\n\tbase\n\tR int\n}\n\ntype Square struct{ S int }\n\nfunc (Square) isShape() {}\n\ntype Mixin struct{ Tag string }\n\nfunc (Mixin) isShape() {}\n\ntype Label struct {\n\tMixin\n\tText string\n}\n\ntype Drawing struct {\n\tName string `json:\"name\"`\n\tMain Shape\n\tAll []Item\n}\n\ntype Item struct{ S Shape }\n"),
		mk("json-embedded-struct-reached-through-its-own-union", "package models\n\ntype U interface{ isU() }\n\ntype Leaf struct{ N int }\n\nfunc (Leaf) isU() {}\n\ntype A struct {\n\tX int\n\tV U\n}\n\nfunc (A) isU() {}\n\ntype B struct {\n\tA\n\tY int\n}\n\ntype C struct {\n\tB\n\tZ string `json:\"z\"`\n}\n"),
		withTags(mk("json-containers-of-an-imported-union", "package models\n\nimport \"example.com/org/models/shapes\"\n\ntype Shapes []shapes.Shape\n\ntype ByName map[string]shapes.Shape\n\ntype Pair [2]shapes.Shape\n\ntype Drawing struct {\n\tName string `json:\"name\"`\n\tMain shapes.Shape\n\tAll Shapes\n\tIdx ByName\n\tTwo Pair\n}\n",
			modFile{"shapes/shapes.go", "package shapes\n\ntype Shape interface{ isShape() }\n\ntype Circle struct{ Radius int }\n\ntype Label string\n\ntype Group struct{ Lead Shape }\n\nfunc (Circle) isShape() {}\nfunc (Label) isShape()  {}\nfunc (Group) isShape()  {}\n"}), "gounions-for:shapes/shapes.go"),
		mk("json-no-union", "package models\n\nimport \"time\"\n\ntype E int\n\nconst (\n\tE0 E = iota\n\tE1\n)\n\ntype Date time.Time\n\ntype Plain struct {\n\tA int\n\tB []byte\n\tC map[int]string\n\tD [2]bool\n\tE E\n\tT time.Time\n\tF float64\n\tG []E\n}\n"),
	}
}

func runC02(e *env) {
	e.m.Rule = "corpus + seeded synthesised modules with unions used as struct fields, in named slices and maps, nested structs, struct and non-struct members, members shared by several unions, json-tagged / json:\"-\" / unexported sibling fields; " +
		"a test binary is built from the source package + the generated wrappers (after goimports) and, per analysed type, marshals and unmarshals the zero value and random values (nil / empty / non-empty slices and maps, unicode and HTML-sensitive strings, every union member); " +
		"one evaluation = one value: deep equality modulo nil/empty after the round trip, and wire format against a reflection-driven reference encoder that knows the unions from the registry only; non-trivial = value containing a union or a container"
	e.m.Extra = map[string]interface{}{"mismatch_means": "property",
		"assumptions": []string{"the reference encoder (harness/testbin/driver.go.txt) is the statement of the wire format: plain encoding/json rules + {Kind, Data} at union positions"}}
	specs := corpusJSON()
	n := 8
	samples := 12
	if e.thorough() {
		n, samples = 120, 40
	}
	for i := 0; i < n; i++ {
		prof := profile{Unions: true, Structs: true, NamedBasics: true, Enums: true, Containers: true, Time: true, Embedded: false, TagsAll: false, TagsSafe: true, TagsOmitempty: true, IgnoreOnWire: true, SiblingMembers: true, ModShape: 0, SubPkg: true}
		specs = append(specs, synthModule(e.r, prof, i))
	}
	// the wrappers of the unions of another package live in that package: a module tagged gounions-for:<file> gets the
	// output of gounions for that file too, as the tool is meant to be used (one run per package)
	for _, m := range specs {
		for _, t := range m.Tags {
			if !strings.HasPrefix(t, "gounions-for:") {
				continue
			}
			rel := strings.TrimPrefix(t, "gounions-for:")
			sub := *m
			sub.Target, sub.Name, sub.Tags = rel, m.Name+"/"+rel, nil
			if so := observeAll([]*modSpec{&sub}, "gounions", 1)[0]; so.Gen["gounions"].Outcome == "ok" {
				m.Files = append(m.Files, modFile{path.Join(path.Dir(rel), "zz_unions_of_the_package.go"), so.Gen["gounions"].Text})
			} else {
				e.m.fail(oracleFailure{What: "gounions on " + rel + " of module " + m.Name + ": " + so.Gen["gounions"].Msg + so.LoadErr, Input: m, NoInput: true})
			}
		}
	}
	obs := observeAll(specs, "gounions", 14)
	results := make([]*binResult, len(specs))
	var wg sync.WaitGroup
	sem := make(chan struct{}, 8)
	for i, o := range obs {
		if o.LoadErr != "" || o.Outcome != "ok" || o.Gen["gounions"].Outcome != "ok" {
			continue
		}
		wg.Add(1)
		sem <- struct{}{}
		go func(i int, o *obsResult) {
			defer wg.Done()
			defer func() { <-sem }()
			results[i] = runTestBinary(specs[i], o, e.seed+int64(i), samples, false)
		}(i, o)
	}
	wg.Wait()
	var cases []string
	var inputs []interface{}
	for i, r := range results {
		spec := specs[i]
		if r == nil {
			e.m.count("skipped_generator_refused_or_analysis_failed")
			continue
		}
		if r.BuildErr != "" {
			e.m.count("binary_build_failed")
			e.m.fail(oracleFailure{What: "source package + generated union wrappers do not build: " + firstLine(r.BuildErr), Input: spec, Got: r.BuildErr, Class: kindClassIfInput(classifyBuildErr(r.BuildErr), obs[i])})
			continue
		}
		if r.RunErr != "" {
			e.m.fail(oracleFailure{What: "the test binary failed: " + r.RunErr, Input: spec})
		}
		nvals := 0
		var docs, vals []string
		for _, rec := range r.Records {
			if rec.Kind != "roundtrip" {
				continue
			}
			nvals++
			e.m.Evaluations++
			e.m.OracleRuns++
			if rec.Shape != "" {
				e.m.Nontrivial++
				for _, s := range strings.Split(rec.Shape, ",") {
					e.m.count("shape_" + s)
				}
			}
			if rec.JSON != "" {
				if j, err := coqJSON([]byte(rec.JSON)); err == nil {
					docs = append(docs, fmt.Sprintf("(%s, %s)", coqNamedRef(obs[i].RootPkg, rec.Type), j))
					if len(rec.Val) > 0 && len(rec.Back) > 0 {
						v1, e1 := coqValue(rec.Val)
						v2, e2 := coqValue(rec.Back)
						if e1 == nil && e2 == nil {
							vals = append(vals, fmt.Sprintf("(%s, %s, %s, %s)", coqNamedRef(obs[i].RootPkg, rec.Type), v1, j, v2))
							e.m.count("values_run_through_the_codec_model")
						}
					}
				}
			}
			if !rec.OK {
				e.m.fail(oracleFailure{What: "type " + rec.Type + ": " + rec.Msg, Input: map[string]interface{}{"module": spec, "type": rec.Type, "json": rec.JSON}, Got: rec.JSON, Class: classifyRoundTrip(rec)})
			} else if rec.Shape != "" {
				e.m.sample(map[string]interface{}{"module": spec.Name, "type": rec.Type, "json": rec.JSON})
			}
		}
		e.m.Distribution["modules_run"]++
		_ = nvals
		cases = append(cases, fmt.Sprintf("{| c2_prog := %s;\n c2_enums := %s;\n c2_ana := %s;\n c2_docs := %s;\n c2_vals := %s |}", obs[i].Facts, obs[i].Enums, obs[i].Ana, coqListNL(docs), coqListNL(vals)))
		inputs = append(inputs, map[string]interface{}{"module": spec, "documents": len(docs)})
		if len(cases) == 2 {
			e.writeCases2(fmt.Sprintf("cases_C02_%d", len(e.m.CaseFiles)), anaHeader+"From GM Require Import Sem.GoJson Sem.GoVal Corr.Check_C02.\n", "mismatches", "roundtrip_failures", cases, inputs)
			cases, inputs = nil, nil
		}
	}
	if len(cases) > 0 {
		e.writeCases2(fmt.Sprintf("cases_C02_%d", len(e.m.CaseFiles)), anaHeader+"From GM Require Import Sem.GoJson Sem.GoVal Corr.Check_C02.\n", "mismatches", "roundtrip_failures", cases, inputs)
	}
}

func firstLine(s string) string {
	for _, l := range strings.Split(s, "\n") {
		if strings.TrimSpace(l) != "" && !strings.HasPrefix(l, "#") {
			return l
		}
	}
	return s
}

func classifyBuildErr(msg string) string {
	if strings.Contains(msg, "Kind redeclared") {
		return "gounions:kind-constant-redeclared"
	}
	return ""
}

func classifyRoundTrip(r binRecord) string { return "" }

// the recorded finding is identified by the shape of the input, not by the compiler's message alone
func kindClassIfInput(cls string, o *obsResult) string {
	if strings.HasSuffix(cls, "kind-constant-redeclared") && !inputHasKindCollision(o) {
		return ""
	}
	return cls
}

func withTags(m *modSpec, tags ...string) *modSpec { m.Tags = append(m.Tags, tags...); return m }
