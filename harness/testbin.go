package main

// Building and running, for one module, a test binary made of: the source package, the generated union wrappers and
// random-data functions (after the goimports pass), registries describing the analysed types, and the reflection driver
// of testbin/driver.go.txt.

import (
	"sync"
	"bufio"
	"bytes"
	"context"
	_ "embed"
	"encoding/json"
	"fmt"
	"os"
	"os/exec"
	"path/filepath"
	"regexp"
	"strings"
	"time"

	"golang.org/x/tools/imports"
)

//go:embed testbin/driver.go.txt
var driverSrc string

//go:embed testbin/crud.go.txt
var crudDriverSrc string

//go:embed testbin/memdb.go.txt
var memdbSrc string

//go:embed testbin/zzrand.go.txt
var zzrandSrc string

//go:embed testbin/pq.go.txt
var pqFunctionalSrc string

// crudOpts: the C05 oracle runs the generated CRUD file against the in-memory driver
type crudOpts struct {
	CrudText string // generated CRUD file
	Script   string // generated SQL script
	SpecJSON string // table facts (analysis/sql API), JSON
}

var reTopFunc = regexp.MustCompile(`(?m)^func ([A-Z]\w*)\(`)
var reScanOne = regexp.MustCompile(`(?m)^func scanOne(\w+)\(`)

func crudRegistries(c *crudOpts, crudFile string) string {
	var b strings.Builder
	if c == nil {
		b.WriteString("\nvar VerifCrudSpec = \"[]\"\nvar VerifCrudScript = \"\"\nvar VerifCrudNew = map[string]func() interface{}{}\nvar VerifCrudFuncs = map[string]interface{}{}\n")
		return b.String()
	}
	fmt.Fprintf(&b, "\nvar VerifCrudSpec = %q\nvar VerifCrudScript = %q\n", c.SpecJSON, c.Script)
	b.WriteString("var VerifCrudNew = map[string]func() interface{}{\n")
	for _, m := range reScanOne.FindAllStringSubmatch(crudFile, -1) {
		fmt.Fprintf(&b, "\t%q: func() interface{} { return new(%s) },\n", m[1], m[1])
	}
	b.WriteString("}\nvar VerifCrudFuncs = map[string]interface{}{\n")
	seen := map[string]bool{}
	for _, m := range reTopFunc.FindAllStringSubmatch(crudFile, -1) {
		if !seen[m[1]] {
			seen[m[1]] = true
			fmt.Fprintf(&b, "\t%q: %s,\n", m[1], m[1])
		}
	}
	b.WriteString("}\n")
	return b.String()
}

type binRecord struct {
	Kind  string          `json:"kind"`
	Type  string          `json:"type"`
	JSON  string          `json:"json"`
	Shape string          `json:"shape"`
	OK    bool            `json:"ok"`
	Msg   string          `json:"msg"`
	Val   json.RawMessage `json:"val"`
	Back  json.RawMessage `json:"back"`
	Calls []struct {
		Fn  string `json:"fn"`
		Arg int64  `json:"arg"`
		Res int64  `json:"res"`
	} `json:"calls"`
}

type binResult struct {
	BuildErr string
	RunErr   string
	Records  []binRecord
}

func localNameds(o *obsResult, kind string) []namedObs {
	var out []namedObs
	seen := map[string]bool{}
	for _, n := range o.Nameds {
		if n.PkgPath == o.RootPkg && (kind == "" || n.Kind == kind) && !strings.Contains(n.ID, "[") && !seen[n.ID] {
			seen[n.ID] = true
			out = append(out, n)
		}
	}
	return out
}

func registries(m *modSpec, o *obsResult, pkgName string, withRand bool) string {
	var b strings.Builder
	fmt.Fprintf(&b, "package %s\n\nimport \"reflect\"\n\nvar _ = reflect.TypeOf\n\n", pkgName)
	// source types of the analysed file
	b.WriteString("var VerifTypes = map[string]func() interface{}{\n")
	for _, n := range localNameds(o, "") {
		if n.Kind == "KdUnion" || !strings.Contains(m.Files[0].Src, "type "+n.Local+" ") && !strings.Contains(m.Files[0].Src, "\t"+n.Local+" ") {
			continue
		}
		fmt.Fprintf(&b, "\t%q: func() interface{} { return new(%s) },\n", n.Local, n.Local)
	}
	// the unions of the analysed package under their name, those of other packages under <package>.<name>
	type unionEntry struct {
		key, qual string
		n         namedObs
	}
	var unions []unionEntry
	for _, n := range localNameds(o, "KdUnion") {
		unions = append(unions, unionEntry{n.Local, "", n})
	}
	seenImported := map[string]bool{}
	for _, n := range o.Nameds {
		if n.Kind == "KdUnion" && n.PkgPath != o.RootPkg && !strings.Contains(n.ID, "[") && !seenImported[n.ID] && exportedName(n.Local) {
			seenImported[n.ID] = true
			unions = append(unions, unionEntry{n.PkgName + "." + n.Local, n.PkgName + ".", n})
		}
	}
	b.WriteString("}\n\nvar VerifInterfaces = map[string]reflect.Type{\n")
	for _, u := range unions {
		fmt.Fprintf(&b, "\t%q: reflect.TypeOf((*%s%s)(nil)).Elem(),\n", u.key, u.qual, u.n.Local)
	}
	b.WriteString("}\n\nvar VerifUnions = map[string][]func() interface{}{\n")
	for _, u := range unions {
		n := u.n
		fmt.Fprintf(&b, "\t%q: {\n", u.key)
		// the members the analysis found, then the implementers go/types finds that it did not list: a Go
		// program can hold them in the union
		mems := append([]string{}, n.Members...)
		for _, imp := range n.Implementers {
			found := false
			for _, mem := range mems {
				found = found || mem == imp
			}
			if !found {
				mems = append(mems, imp)
			}
		}
		for _, mem := range mems {
			if u.qual != "" && !exportedName(mem) {
				continue // a member the analysed package can not name
			}
			fmt.Fprintf(&b, "\t\tfunc() interface{} { var v %s%s; return v },\n", u.qual, mem)
		}
		b.WriteString("\t},\n")
	}
	b.WriteString("}\n\nvar VerifEnums = map[string][]interface{}{\n")
	seen := map[string]bool{}
	for _, n := range o.Nameds {
		if n.Kind != "KdEnum" || seen[n.ID] {
			continue
		}
		seen[n.ID] = true
		qual := ""
		if n.PkgPath != o.RootPkg {
			qual = n.PkgName + "."
		}
		fmt.Fprintf(&b, "\t%q: {", n.PkgName+"."+n.Local)
		for _, c := range n.Members {
			fmt.Fprintf(&b, "%s%s, ", qual, c)
		}
		b.WriteString("},\n")
	}
	// every constant of the enum, the unexported ones of the analysed package included: the values a Go program can hold
	b.WriteString("}\n\nvar VerifEnumsAll = map[string][]interface{}{\n")
	seenAll := map[string]bool{}
	for _, n := range o.Nameds {
		if n.Kind != "KdEnum" || seenAll[n.ID] {
			continue
		}
		seenAll[n.ID] = true
		qual := ""
		if n.PkgPath != o.RootPkg {
			qual = n.PkgName + "."
		}
		fmt.Fprintf(&b, "\t%q: {", n.PkgName+"."+n.Local)
		for _, c := range n.Members {
			fmt.Fprintf(&b, "%s%s, ", qual, c)
		}
		if n.PkgPath == o.RootPkg {
			for _, c := range n.Hidden {
				if c != "_" {
					fmt.Fprintf(&b, "%s, ", c)
				}
			}
		}
		b.WriteString("},\n")
	}
	b.WriteString("}\n\nvar VerifRand = map[string]func() interface{}{\n")
	if withRand {
		rd := o.Gen["randdata"].Text
		for _, n := range localNameds(o, "") {
			if strings.Contains(rd, "func rand"+n.Local+"()") {
				fmt.Fprintf(&b, "\t%q: func() interface{} { return rand%s() },\n", n.Local, n.Local)
			}
		}
	}
	b.WriteString("}\n")
	return b.String()
}

// runTestBinary: what = which generated files to include ("gounions", "randdata")
func runTestBinary(m *modSpec, o *obsResult, seed int64, samples int, withRand bool) *binResult {
	return runTestBinaryX(m, o, seed, samples, withRand, nil)
}

func runTestBinaryX(m *modSpec, o *obsResult, seed int64, samples int, withRand bool, crud *crudOpts) *binResult {
	res := &binResult{}
	root, target := m.materialize()
	dir := filepath.Dir(target)
	pkgName := ""
	for _, l := range strings.Split(m.Files[0].Src, "\n") {
		if strings.HasPrefix(l, "package ") {
			pkgName = strings.TrimSpace(strings.TrimPrefix(l, "package "))
			break
		}
	}
	importsMu.Lock()
	cwd, _ := os.Getwd()
	os.Chdir(dir)
	writeGen := func(name, text string) error {
		out, err := imports.Process(filepath.Join(dir, name), []byte(text), &imports.Options{Comments: true, TabIndent: true, TabWidth: 8})
		if err != nil {
			return fmt.Errorf("%s: %v", name, err)
		}
		writeFile(filepath.Join(dir, name), string(out))
		return nil
	}
	var err error
	if g := o.Gen["gounions"]; g.Outcome == "ok" {
		err = writeGen("zz_unions.go", g.Text)
	}
	if err == nil && withRand {
		if err = writeGen("zz_rand.go", o.Gen["randdata"].Text); err == nil {
			// the generated functions draw their random numbers through the recording shim
			b, _ := os.ReadFile(filepath.Join(dir, "zz_rand.go"))
			writeFile(filepath.Join(dir, "zz_rand.go"), strings.Replace(string(b), "\"math/rand\"", "rand \""+m.ModPath+"/zzrand\"", 1))
		}
	}
	crudFile := ""
	if err == nil && crud != nil {
		if err = writeGen("zz_crud.go", crud.CrudText); err == nil {
			b, _ := os.ReadFile(filepath.Join(dir, "zz_crud.go"))
			crudFile = string(b)
		}
	}
	if err == nil {
		err = writeGen("zz_verif.go", registries(m, o, pkgName, withRand)+crudRegistries(crud, crudFile))
	}
	os.Chdir(cwd)
	importsMu.Unlock()
	if err != nil {
		res.BuildErr = err.Error()
		return res
	}
	importPath := m.ModPath
	if pkgName == "main" {
		res.BuildErr = "package main cannot be imported"
		return res
	}
	writeFile(filepath.Join(root, "cmd", "verifbin", "main.go"), strings.ReplaceAll(driverSrc, "TARGETIMPORT", importPath))
	writeFile(filepath.Join(root, "cmd", "verifbin", "crud.go"), strings.ReplaceAll(crudDriverSrc, "TARGETIMPORT", importPath))
	writeFile(filepath.Join(dir, "zzmemdb", "memdb.go"), memdbSrc)
	writeFile(filepath.Join(dir, "zzrand", "zzrand.go"), zzrandSrc)
	if crud != nil {
		writeFile(filepath.Join(root, "pqstub", "go.mod"), "module github.com/lib/pq\n\ngo 1.21\n")
		writeFile(filepath.Join(root, "pqstub", "pq.go"), pqFunctionalSrc)
		writeFile(filepath.Join(root, "go.mod"), "module "+m.ModPath+"\n\ngo 1.21\n\nrequire github.com/lib/pq v0.0.0\n\nreplace github.com/lib/pq => ./pqstub\n")
	}
	bin := filepath.Join(root, "verifbin")
	build := exec.Command("go", "build", "-o", bin, "./cmd/verifbin")
	build.Dir = root
	build.Env = os.Environ()
	if out, err := build.CombinedOutput(); err != nil {
		res.BuildErr = strings.ReplaceAll(string(out), root+"/", "")
		return res
	}
	runOnce := func(mode string, limit time.Duration) (string, string) {
		ctx, cancel := context.WithTimeout(context.Background(), limit)
		defer cancel()
		run := exec.CommandContext(ctx, bin, fmt.Sprint(seed), fmt.Sprint(samples), mode)
		var stdout, stderr bytes.Buffer
		run.Stdout, run.Stderr = &stdout, &stderr
		errMsg := ""
		if err := run.Run(); err != nil {
			errMsg = err.Error() + ": " + tail(stderr.String(), 600)
			if strings.Contains(stderr.String(), "stack overflow") || strings.Contains(stderr.String(), "goroutine stack exceeds") {
				errMsg = "fatal error: stack overflow"
			}
		}
		return stdout.String(), errMsg
	}
	parse := func(out string) {
		sc := bufio.NewScanner(strings.NewReader(out))
		sc.Buffer(make([]byte, 1<<20), 1<<26)
		for sc.Scan() {
			var r binRecord
			if json.Unmarshal(sc.Bytes(), &r) == nil {
				res.Records = append(res.Records, r)
			}
		}
	}
	if crud != nil {
		out, errMsg := runOnce("crud", 120*time.Second)
		parse(out)
		res.RunErr = errMsg
		os.Remove(bin)
		return res
	}
	out, errMsg := runOnce("roundtrip", 120*time.Second)
	parse(out)
	res.RunErr = errMsg
	if withRand {
		// one process per type: an unbounded recursion kills the process with a fatal stack overflow
		list, _ := runOnce("randlist", 60*time.Second)
		for _, name := range strings.Fields(list) {
			out, errMsg := runOnce("rand:"+name, 30*time.Second)
			if errMsg != "" && !strings.Contains(errMsg, "stack overflow") {
				// killed at the time limit, which a loaded machine reaches on functions that do return: once more, alone
				// (the other test binaries wait), with a generous limit
				aloneMu.Lock()
				out, errMsg = runOnce("rand:"+name, 150*time.Second)
				aloneMu.Unlock()
			}
			parse(out)
			if errMsg != "" {
				what := "does not terminate ("
				if !strings.Contains(errMsg, "stack overflow") && !strings.Contains(errMsg, "signal: killed") {
					what = "the process calling it died ("
				}
				res.Records = append(res.Records, binRecord{Kind: "rand", Type: name, OK: false, Msg: what + errMsg + ")"})
			}
		}
	}
	os.Remove(bin)
	return res
}

var aloneMu sync.Mutex

func exportedName(s string) bool { return s != "" && s[0] >= 'A' && s[0] <= 'Z' }
