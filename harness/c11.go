package main

import (
	"fmt"
	"go/types"
	"strings"
)

func init() { commands["C11"] = runC11 }

const anaHeader = factsHeader + "From GM Require Import Facts.Ana Model.Enums.\n"

func runC11(e *env) {
	e.m.Rule = "corpus modules (union shapes: value vs pointer receivers, members of several unions, unions not analysed, aliases to members, named empty interface, foreign implementers, embedded interfaces, unions as field / element / map value / top level only) " +
		"then seeded synthesised modules; one evaluation = one module: the union table of the walk and every struct node reachable in the analysis result; non-trivial = at least one union with >= 2 members or a member of >= 2 unions"
	e.m.Extra = map[string]interface{}{"mismatch_means": "model"}
	specs := append(corpusUnions(), repoFixtures("repo-testsource-defs", "repo-testsource-other")...)
	// the analysed package lies two levels below the module root and uses unions declared in the root package, whose path
	// is exactly the prefix the package selector is built from
	specs = append(specs, &modSpec{Name: "union-in-the-module-root-used-from-a-sub-package", ModPath: "example.com/demo", Target: "api/api.go",
		Files: []modFile{{"api/api.go", "package api\n\nimport \"example.com/demo\"\n\ntype Drawing struct {\n\tMain demo.Shape\n\tTitle demo.Named\n\tK demo.Kind\n}\n"},
			{"shapes.go", "package demo\n\ntype Shape interface{ isShape() }\n\ntype Named interface{ name() string }\n\ntype Circle struct{ R int }\n\ntype Square struct{ S int }\n\nfunc (Circle) isShape()     {}\nfunc (Square) isShape()     {}\nfunc (Circle) name() string { return \"circle\" }\n\ntype Kind int\n\nconst (\n\tK0 Kind = iota\n\tK1\n)\n"}}})
	n := 20
	if e.thorough() {
		n = 300
	}
	prof := profile{Unions: true, Structs: true, NamedBasics: true, Containers: true, Enums: true, SubPkg: true, Recursive: true, ModShape: 3, SiblingMembers: true}
	for i := 0; i < n; i++ {
		specs = append(specs, synthModule(e.r, prof, i))
	}
	obs := observeAll(specs, "", 14)
	var cases []string
	var inputs []interface{}
	fileNo := 0
	flush := func() {
		if len(cases) > 0 {
			e.writeCases2(fmt.Sprintf("cases_C11_%d", fileNo), anaHeader+"From GM Require Import Model.Unions Corr.Check_C11.\n", "mismatches", "prop_failures", cases, inputs)
			fileNo++
			cases, inputs = nil, nil
		}
	}
	for i, o := range obs {
		spec := specs[i]
		if o.LoadErr != "" {
			e.m.count("rejected_by_type_checker")
			e.m.Extra["last_rejected"] = spec.Name + ": " + o.LoadErr
			continue
		}
		e.m.Evaluations++
		e.m.count("analysis_" + o.Outcome)
		if o.Outcome == "fatal" {
			e.m.fail(oracleFailure{What: "analysis died: " + o.Msg, Input: spec})
			continue
		}
		for k, v := range o.Kinds {
			e.m.Distribution["nodes_"+k] += v
		}
		nt := strings.Count(o.Unions, "; ") >= 1 // some union with >= 2 members
		if nt {
			e.m.Nontrivial++
			e.m.sample(map[string]interface{}{"module": spec.Name, "source": spec.Files[0].Src, "unions": o.Unions})
		}
		cases = append(cases, fmt.Sprintf("{| c11_prog := %s;\n c11_unions := %s;\n c11_ana := %s |}", o.Facts, o.Unions, o.Ana))
		inputs = append(inputs, map[string]interface{}{"module": spec, "analysis_outcome": o.Outcome, "msg": o.Msg})
		if len(cases) == 6 {
			flush()
		}
	}
	flush()
	// third opinion on membership: types.Implements recomputed here for the corpus + synthesised modules
	loads := loadAll(specs[:min(len(specs), 12)], 12)
	for _, l := range loads {
		if l.err != nil {
			continue
		}
		e.m.OracleRuns++
		tblE, tbl := observeUnionsDirect(l)
		_ = tblE
		if tbl == nil {
			continue
		}
		for _, p := range allPackages(l.pkg) {
			if !strings.HasPrefix(p.PkgPath, userPrefix(l.pkg.PkgPath)) {
				continue
			}
			sc := p.Types.Scope()
			for _, name := range sc.Names() {
				tn, ok := sc.Lookup(name).(*types.TypeName)
				if !ok {
					continue
				}
				named, ok := tn.Type().(*types.Named)
				if !ok {
					continue
				}
				itf, ok := named.Underlying().(*types.Interface)
				if !ok {
					continue
				}
				var want []string
				for _, name2 := range sc.Names() {
					tn2, ok := sc.Lookup(name2).(*types.TypeName)
					if !ok {
						continue
					}
					n2, ok := tn2.Type().(*types.Named)
					if !ok {
						continue
					}
					if _, isI := n2.Underlying().(*types.Interface); isI {
						continue
					}
					if types.Implements(n2, itf) {
						want = append(want, tyID(n2))
					}
				}
				var got []string
				for _, m := range tbl[named] {
					got = append(got, tyID(m))
				}
				if strings.Join(want, ",") != strings.Join(got, ",") {
					e.m.fail(oracleFailure{What: "union " + tyID(named) + " members differ from types.Implements over the package's defined types", Input: l.spec, Expect: strings.Join(want, ","), Got: strings.Join(got, ",")})
				}
			}
		}
	}
}
