package main

import (
	"encoding/json"
	"fmt"
	"os"
	"os/exec"
	"path/filepath"
	"sort"
	"strings"

	"github.com/benoitkugler/gomacro/analysis"
	"golang.org/x/tools/go/packages"
)

func init() { commands["C17"] = runC17 }

const c17Header = "From Coq Require Import List String.\nFrom GM Require Import Base.Hex Base.Result Model.Loader Corr.Check_C17.\nImport ListNotations.\nLocal Open Scope string_scope.\n"

func c17prefix(paths []string) (out string, class string) {
	defer func() {
		if r := recover(); r != nil {
			class, out = panicClass(r)
		}
	}()
	return analysis.VerifCommonPrefix(paths), "ok"
}

// independent oracle: deepest common ancestor by path elements
func c17ref(paths []string) string {
	split := func(p string) []string {
		if p == "/" {
			return nil
		}
		return strings.Split(strings.TrimPrefix(p, "/"), "/")
	}
	common := split(paths[0])
	for _, p := range paths[1:] {
		el := split(p)
		n := 0
		for n < len(common) && n < len(el) && common[n] == el[n] {
			n++
		}
		common = common[:n]
	}
	return "/" + strings.Join(common, "/")
}

func runC17(e *env) {
	defer c17CLI(e)
	e.m.Rule = "(a) path sets: 1..6 absolute cleaned directories over element pools with shared name prefixes (foo, foo1, foo2, fo, foobar...), nesting, duplicates, root; " +
		"non-trivial = at least 2 distinct directories; (b) real module layouts on disk loaded with analysis.LoadSources (sibling packages with a common name prefix, nesting, one file, duplicates, relative and absolute spellings) " +
		"and the error stream (missing file, non-Go file, type error, empty list)"
	e.m.Extra = map[string]interface{}{
		"mismatch_means": "model",
		"assumptions": []string{"an ancestor (by path elements) of an existing directory is an existing directory (file-system fact; checked by os.Stat in the oracle)",
			"go/packages returns for each file= pattern the package whose GoFiles lists the absolute file name"},
	}
	pools := [][]string{
		{"a", "foo", "foo1", "foo2", "fo", "foobar", "b"},
		{"src", "pkg", "pkg1", "pkgs", "x"},
		{"m", "mod", "model", "models", "mo"},
		{"é", "a b", "a.b", "-", "_", "A", "a"},
		// names extending one another with characters sorting before and after the separator
		{"api", "api-v2", "api.v1", "api+x", "api0", "api_v2", "apis", "ap"},
	}
	nSets := 1500
	if e.thorough() {
		nSets = 40000
	}
	var coqCases []string
	var inputs []interface{}
	fileNo := 0
	flush := func() {
		if len(coqCases) == 0 {
			return
		}
		e.writeCases(fmt.Sprintf("cases_C17_prefix_%d", fileNo), c17Header, coqCases, inputs)
		fileNo++
		coqCases, inputs = nil, nil
	}
	seen := map[string]bool{}
	addSet := func(paths []string, kind string) {
		out, class := c17prefix(append([]string(nil), paths...))
		e.m.Evaluations++
		e.m.count("prefix_" + kind)
		key := strings.Join(paths, "\x00")
		distinct := map[string]bool{}
		for _, p := range paths {
			distinct[p] = true
		}
		if !seen[key] {
			seen[key] = true
			if len(distinct) >= 2 {
				e.m.Nontrivial++
			}
		}
		e.m.OracleRuns++
		pf := false
		if class == "crash" {
			e.m.fail(oracleFailure{What: "commonPrefix dies with a runtime error", Input: paths, Got: out})
			out = "<crash>"
			pf = true
		} else if len(paths) > 0 {
			// the property: the root is an (element-wise) ancestor of every directory.
			// (That it is the deepest one is what the model says; a shallower root would only break the correspondence.)
			out = filepath.Clean(out)
			for _, p := range paths {
				if !(out == "/" || p == out || strings.HasPrefix(p, out+"/")) {
					e.m.fail(oracleFailure{What: "common root is not an ancestor directory of " + p, Input: paths, Expect: c17ref(paths), Got: out})
					pf = true
					break
				}
			}
		}
		if len(distinct) >= 2 {
			e.m.sample(map[string]interface{}{"dirs": paths, "root": out})
		}
		coqCases = append(coqCases, fmt.Sprintf("(%s, %s)", coqStrList(paths), coqStr(out)))
		inputs = append(inputs, map[string]interface{}{"dirs": paths, "root": out, "property_fails": pf})
		if len(coqCases) == 2500 {
			flush()
		}
	}
	// corpus first
	addSet([]string{"/a/foo1", "/a/foo2"}, "corpus")
	addSet([]string{"/foo1", "/foo2"}, "corpus")
	addSet([]string{"/a/b", "/a/bc"}, "corpus")
	addSet([]string{"/a/b", "/a/b/c"}, "corpus")
	addSet([]string{"/"}, "corpus")
	addSet([]string{"/", "/a"}, "corpus")
	addSet([]string{"/a", "/b"}, "corpus")
	addSet([]string{"/a/b/c"}, "corpus")
	addSet([]string{"/a/b", "/a/b"}, "corpus")
	addSet([]string{"/x/api", "/x/api-v2", "/x/api/models"}, "corpus")
	addSet([]string{"/x/api/models", "/x/api", "/x/api.v1/y", "/x/api+x"}, "corpus")
	addSet(nil, "corpus_empty")
	for i := 0; i < nSets; i++ {
		pool := pools[e.r.intn(len(pools))]
		if e.r.chance(1, 4) { // mix pools
			pool = append(append([]string(nil), pool...), pools[e.r.intn(len(pools))]...)
		}
		n := 1 + e.r.intn(6)
		// a shared stem, then divergent tails
		var stem []string
		for d := e.r.intn(4); d > 0; d-- {
			stem = append(stem, pick(e.r, pool))
		}
		paths := make([]string, n)
		for j := range paths {
			el := append([]string(nil), stem...)
			if e.r.chance(1, 6) && len(el) > 0 {
				el = el[:e.r.intn(len(el))]
			}
			for d := e.r.intn(3); d > 0; d-- {
				el = append(el, pick(e.r, pool))
			}
			paths[j] = "/" + strings.Join(el, "/")
			if j > 0 && e.r.chance(1, 8) {
				paths[j] = paths[e.r.intn(j)]
			}
		}
		addSet(paths, "random")
	}
	flush()

	c17layouts(e)
}

// ---- real layouts through LoadSources ----

type c17layout struct {
	dirs  []string // package directories relative to module root ("" = root)
	files map[string][]string
}

func c17layouts(e *env) {
	nLayouts := 6
	if e.thorough() {
		nLayouts = 60
	}
	names := []string{"foo", "foo1", "foo2", "fo", "bar", "foobar", "sub", "sub1", "foo-v2", "foo.old"}
	var coqCases []string
	var inputs []interface{}
	cwd, _ := os.Getwd()
	defer os.Chdir(cwd)
	for li := 0; li < nLayouts; li++ {
		root := scratchDir(fmt.Sprintf("c17_%d", li))
		modRoot := root
		if e.r.bool() {
			modRoot = filepath.Join(root, "go", "src", "example.com", "mod")
		}
		writeFile(filepath.Join(modRoot, "go.mod"), "module example.com/org/mod\n\ngo 1.21\n")
		// directories
		nd := 2 + e.r.intn(4)
		dirset := map[string]bool{}
		var dirs []string
		for len(dirs) < nd {
			d := pick(e.r, names)
			if e.r.chance(1, 3) && len(dirs) > 0 {
				d = filepath.Join(pick(e.r, dirs), d)
			}
			if li == 0 && len(dirs) < 2 { // corpus: siblings sharing a name prefix
				d = []string{"foo1", "foo2"}[len(dirs)]
			}
			if !dirset[d] {
				dirset[d] = true
				dirs = append(dirs, d)
			}
		}
		var allFiles []string
		for _, d := range dirs {
			pkgName := strings.NewReplacer("-", "_", ".", "_").Replace(filepath.Base(d)) // the directory name, as an identifier
			nf := 1 + e.r.intn(2)
			for k := 0; k < nf; k++ {
				f := filepath.Join(modRoot, d, fmt.Sprintf("f%d.go", k))
				writeFile(f, fmt.Sprintf("package %s\n\ntype T%d struct{ A int }\n", pkgName, k))
				allFiles = append(allFiles, f)
			}
		}
		sort.Strings(allFiles)
		// several requests per layout
		for req := 0; req < 3; req++ {
			n := 1 + e.r.intn(4)
			files := make([]string, n)
			for j := range files {
				files[j] = pick(e.r, allFiles)
			}
			if li == 0 && req == 0 {
				files = []string{filepath.Join(modRoot, "foo1", "f0.go"), filepath.Join(modRoot, "foo2", "f0.go")}
			}
			kind := "ok"
			relative := e.r.chance(1, 3)
			switch {
			case req == 2 && li%4 == 0:
				kind = "missing"
				files = append(files, filepath.Join(modRoot, "nope", "x.go"))
			case req == 2 && li%4 == 1:
				kind = "nongo"
				f := filepath.Join(modRoot, dirs[0], "notes.txt")
				writeFile(f, "hello")
				files = append(files, f)
			case req == 2 && li%4 == 2:
				kind = "typeerror"
				f := filepath.Join(modRoot, "broken", "b.go")
				writeFile(f, "package broken\n\nvar X int = \"s\"\n")
				files = append(files, f)
			case req == 2 && li%4 == 3:
				kind = "empty"
				files = nil
			case req == 1 && li%3 == 1:
				// the requested package type-checks on its own, a package it imports does not
				kind = "typeerror_in_import"
				writeFile(filepath.Join(modRoot, "illtyped", "b.go"), "package illtyped\n\nvar Count int = \"not an int\"\n\nconst Other = 3\n")
				f := filepath.Join(modRoot, "user", "a.go")
				writeFile(f, "package user\n\nimport \"example.com/org/mod/illtyped\"\n\nconst Twice = 2 * illtyped.Other\n\ntype T struct{ A int }\n")
				files = []string{f}
			}
			spelled := append([]string(nil), files...)
			check(os.Chdir(modRoot))
			if relative {
				for j, f := range spelled {
					if rel, err := filepath.Rel(modRoot, f); err == nil {
						spelled[j] = rel
					}
				}
			}
			if !relative && kind == "ok" && (e.r.chance(1, 3) || (li == 1 && req == 0)) {
				// absolute but not lexically clean spellings of the same files
				for j, f := range spelled {
					d, b := filepath.Dir(f), filepath.Base(f)
					switch (j + li) % 3 {
					case 0:
						spelled[j] = filepath.Dir(d) + "/../" + filepath.Base(filepath.Dir(d)) + "/" + filepath.Base(d) + "/" + b
					case 1:
						spelled[j] = d + "//" + b
					default:
						spelled[j] = d + "/./" + b
					}
				}
				e.m.count("layout_unclean_absolute_spelling")
			}
			pkgs, dir, err, class, msg := c17load(spelled)
			if dir != "" {
				dir = filepath.Clean(dir)
			}
			nFailBefore := len(e.m.Failures)
			e.m.Evaluations++
			e.m.count("layout_" + kind)
			if relative {
				e.m.count("layout_relative_spelling")
			}
			obs := "LsErr"
			var absDirs []string
			for _, f := range files {
				absDirs = append(absDirs, filepath.Dir(f))
			}
			var pkgTable []string
			input := map[string]interface{}{"module_root": modRoot, "files": spelled, "kind": kind}
			e.m.OracleRuns++
			switch {
			case class == "crash":
				obs = "LsCrash"
				e.m.fail(oracleFailure{What: "LoadSources dies with a runtime error: " + msg, Input: input})
			case class == "diag":
				obs = "LsErr" // explicit panic: counted as an error report
			case err != nil:
				if kind == "ok" {
					e.m.fail(oracleFailure{What: "LoadSources fails on existing Go files of one module: " + err.Error(), Input: input})
					obs = "LsCrash"
				}
			default:
				if kind == "missing" || kind == "nongo" || kind == "typeerror" || kind == "typeerror_in_import" {
					e.m.fail(oracleFailure{What: "LoadSources returns no error for a request of kind " + kind + " (missing files, non-Go files and packages with type errors must be reported)", Input: input})
				}
				if kind != "ok" {
					// not an error although an error case was requested (empty request)
					e.m.count("layout_" + kind + "_accepted")
				}
				// oracles
				if st, serr := os.Stat(dir); serr != nil || !st.IsDir() {
					e.m.fail(oracleFailure{What: "common root is not an existing directory", Input: input, Got: dir})
				}
				ids := make([]string, len(pkgs))
				seenPkg := map[string]bool{}
				for i, p := range pkgs {
					ids[i] = p.ID
					abs := files[i]
					if rel, rerr := filepath.Rel(dir, abs); rerr != nil || strings.HasPrefix(rel, "..") {
						e.m.fail(oracleFailure{What: "common root is not an ancestor of " + abs, Input: input, Got: dir})
					}
					found := false
					for _, g := range p.GoFiles {
						if g == abs {
							found = true
						}
					}
					if !found {
						e.m.fail(oracleFailure{What: "package returned for " + abs + " does not contain it", Input: input, Got: p.ID})
					}
					if !seenPkg[p.ID] {
						seenPkg[p.ID] = true
						pkgTable = append(pkgTable, fmt.Sprintf("(%s, %s)", coqStr(p.ID), coqStrList(p.GoFiles)))
					}
				}
				obs = fmt.Sprintf("(LsOk %s %s)", coqStrList(ids), coqStr(dir))
				input["root"] = dir
				input["packages"] = ids
			}
			e.m.sample(input)
			input["property_fails"] = len(e.m.Failures) > nFailBefore
			coqCases = append(coqCases, fmt.Sprintf("{| lc_pkgs := %s; lc_files := %s; lc_dirs := %s; lc_obs := %s |}",
				coqList(pkgTable), coqStrList(files), coqStrList(absDirs), obs))
			inputs = append(inputs, input)
			e.m.Nontrivial++
		}
		os.Chdir(cwd)
		os.RemoveAll(root)
	}
	e.writeCasesFn("cases_C17_layouts", c17Header, "mismatches_ls", coqCases, inputs)
}

func c17load(files []string) (pkgs []*packages.Package, dir string, err error, class string, msg string) {
	defer func() {
		if r := recover(); r != nil {
			class, msg = panicClass(r)
		}
	}()
	// silence packages.PrintErrors
	old := os.Stderr
	devnull, _ := os.Open(os.DevNull)
	if devnull != nil {
		os.Stderr = devnull
		defer func() { os.Stderr = old; devnull.Close() }()
	}
	pkgs, dir, err = analysis.LoadSources(files)
	return pkgs, dir, err, "ok", ""
}

// c17CLI: the command in configuration mode hands every file the package LoadSources returned for it, also when
// -dart-only skips the files without a Dart action (cmd/gomacro.go:Config.run indexes the packages by file).
func c17CLI(e *env) {
	dir := scratchDir("c17cli")
	bin := filepath.Join(dir, "gomacro")
	build := exec.Command("go", "build", "-o", bin, "./cmd")
	build.Dir = "/repo"
	build.Env = os.Environ()
	if outb, err := build.CombinedOutput(); err != nil {
		e.m.fail(oracleFailure{What: "the command does not build: " + string(outb), Input: "go build ./cmd", NoInput: true})
		return
	}
	mod := filepath.Join(dir, "mod")
	writeFile(filepath.Join(mod, "go.mod"), "module example.com/org/mod\n\ngo 1.21\n")
	writeFile(filepath.Join(mod, "alpha", "tables.go"), "package alpha\n\ntype IdRow int64\n\ntype Row struct {\n\tId IdRow\n\tName string\n}\n")
	writeFile(filepath.Join(mod, "beta", "model.go"), "package beta\n\ntype Model struct {\n\tA int\n\tB string\n}\n")
	writeFile(filepath.Join(mod, "gamma", "other.go"), "package gamma\n\ntype Other struct {\n\tC bool\n}\n")
	goDir := ""
	if p, err := exec.LookPath("go"); err == nil {
		goDir = filepath.Dir(p)
	}
	fake := filepath.Join(dir, "fakebin")
	os.MkdirAll(fake, 0o755)
	writeFile(filepath.Join(fake, "npx"), "#!/bin/sh\nexit 1\n")
	os.Chmod(filepath.Join(fake, "npx"), 0o755)
	for _, dartOnly := range []bool{false, true} {
		out := filepath.Join(dir, fmt.Sprintf("out_%v", dartOnly))
		os.MkdirAll(out, 0o755)
		conf := map[string][]map[string]string{
			filepath.Join(mod, "alpha", "tables.go"): {{"Mode": "sql", "Output": filepath.Join(out, "alpha.sql")}},
			filepath.Join(mod, "beta", "model.go"):   {{"Mode": "dart", "Output": out}, {"Mode": "typescript/types", "Output": filepath.Join(out, "beta.ts")}},
			filepath.Join(mod, "gamma", "other.go"):  {{"Mode": "dart", "Output": out}},
			"_dart":                                  {{"Mode": "dart", "Output": out}},
		}
		cb, _ := json.Marshal(conf)
		confFile := filepath.Join(dir, fmt.Sprintf("conf_%v.json", dartOnly))
		writeFile(confFile, string(cb))
		args := []string{"-config"}
		if dartOnly {
			args = append(args, "-dart-only")
		}
		cmd := exec.Command(bin, append(args, confFile)...)
		cmd.Dir = mod
		env := []string{"PATH=" + fake + ":" + goDir + ":/usr/bin:/bin", "HOME=" + os.Getenv("HOME")}
		for _, kv := range os.Environ() {
			if strings.HasPrefix(kv, "GO") {
				env = append(env, kv)
			}
		}
		cmd.Env = env
		outb, err := cmd.CombinedOutput()
		e.m.Evaluations++
		e.m.OracleRuns++
		e.m.Nontrivial++
		e.m.count("cli_config_run")
		input := map[string]interface{}{"config": conf, "dart_only": dartOnly}
		if err != nil {
			e.m.fail(oracleFailure{What: "the command fails on existing Go files of one module (configuration mode): " + tail(string(outb), 700), Input: input})
			continue
		}
		// each Dart file holds the classes of its own package: the file handed to the analysis was given its own package
		for pkg, class := range map[string]string{"beta": "class Model", "gamma": "class Other"} {
			b, rerr := os.ReadFile(filepath.Join(out, "stdlib_example.com_org_mod_"+pkg+".dart"))
			if rerr != nil || !strings.Contains(string(b), class) {
				e.m.fail(oracleFailure{What: "the Dart file of package " + pkg + " does not declare " + class + ": the file was not analysed with the package that contains it", Input: input, Got: tail(string(b), 400)})
			}
		}
		if !dartOnly {
			b, _ := os.ReadFile(filepath.Join(out, "alpha.sql"))
			if !strings.Contains(string(b), "CREATE TABLE rows") {
				e.m.fail(oracleFailure{What: "the SQL file of alpha/tables.go does not create its table", Input: input, Got: tail(string(b), 400)})
			}
		}
	}
}
