package main

import (
	"regexp"
	"fmt"
	"strconv"
	"strings"
	"sync"
)

func init() { commands["C15"] = runC15 }

func runC15(e *env) {
	e.m.Rule = "corpus + seeded synthesised modules (incl. recursive types and types from other packages): the real generated random-data functions are compiled with the source package and called repeatedly under different seeds in a test binary (3 s limit per call); " +
		"each returned value is inspected by reflection (enum components among the exported constants, union components non-nil members, slices / maps / arrays populated, skipped fields zero), round-tripped through JSON, and the number of distinct values per type is counted; " +
		"one evaluation = one call; non-trivial = call on a struct, container or union type"
	e.m.Extra = map[string]interface{}{"mismatch_means": "model"}
	specs := corpusRand()
	n, samples := 8, 6
	if e.thorough() {
		n, samples = 100, 25
	}
	for i := 0; i < n; i++ {
		prof := profile{Unions: true, Structs: true, NamedBasics: true, Enums: true, Containers: true, Time: true, SubPkg: true, Recursive: i%3 == 0, ModShape: 0, TagsSafe: true, IgnoreOnWire: true, SiblingMembers: true}
		specs = append(specs, synthModule(e.r, prof, i))
	}
	obs := observeAll(specs, "gounions,randdata", 14)
	results := make([]*binResult, len(specs))
	var wg sync.WaitGroup
	sem := make(chan struct{}, 8)
	for i, o := range obs {
		if o.LoadErr != "" || o.Outcome != "ok" {
			continue
		}
		e.m.count("randdata_" + o.Gen["randdata"].Outcome)
		if o.Gen["randdata"].Outcome == "crash" {
			e.m.fail(oracleFailure{What: "the random-data generator dies: " + o.Gen["randdata"].Msg, Input: specs[i]})
		}
		if o.Gen["randdata"].Outcome != "ok" || o.Gen["gounions"].Outcome != "ok" {
			continue
		}
		wg.Add(1)
		sem <- struct{}{}
		go func(i int, o *obsResult) {
			defer wg.Done()
			defer func() { <-sem }()
			results[i] = runTestBinary(specs[i], o, e.seed+int64(i), samples, true)
		}(i, o)
	}
	wg.Wait()
	var cases []string
	var inputs []interface{}
	e.detailFn = "details"
	for i, r := range results {
		spec := specs[i]
		if r == nil {
			continue
		}
		if r.BuildErr != "" {
			cls := kindClassIfInput(classifyBuildErr(r.BuildErr), obs[i])
			if shadowClass(obs[i]) != "" {
				cls = "randdata:embedded-field-shadowed"
			}
			e.m.fail(oracleFailure{What: "source package + generated random-data functions do not build: " + firstLine(r.BuildErr), Input: spec, Got: r.BuildErr, Class: cls})
			continue
		}
		if r.RunErr != "" {
			e.m.fail(oracleFailure{What: "the test binary failed: " + r.RunErr, Input: spec})
		}
		returned := map[string]bool{}
		notReturned := map[string]string{}
		var vals []string
		variation := map[string]int{}
		order := []string{}
		for _, rec := range r.Records {
			switch rec.Kind {
			case "rand":
				e.m.Evaluations++
				e.m.OracleRuns++
				if _, ok := returned[rec.Type]; !ok {
					returned[rec.Type] = true
					order = append(order, rec.Type)
				}
				if strings.HasPrefix(rec.JSON, "{") || strings.HasPrefix(rec.JSON, "[") {
					e.m.Nontrivial++
				}
				if strings.Contains(rec.Msg, "does not terminate") {
					returned[rec.Type] = false
					notReturned[rec.Type] = rec.Msg
					e.m.count("calls_not_terminating")
					continue
				}
				if len(rec.Val) > 0 {
					if v, err := coqValue(rec.Val); err == nil {
						var calls []string
						for _, c := range rec.Calls {
							calls = append(calls, fmt.Sprintf("rc %s (%d) (%d)", coqStr(c.Fn), c.Arg, c.Res))
						}
						vals = append(vals, fmt.Sprintf("(%s, %s, %s)", coqNamedRef(obs[i].RootPkg, rec.Type), coqList(calls), v))
						e.m.count("calls_replayed_through_the_generator_model")
					}
				}
				if !rec.OK {
					cls := classifyRand(rec)
					if cls == "" && strings.Contains(rec.Msg, "marshal panics") && strings.Contains(rec.Msg, "exhaustive switch") && hasSkippedUnionField(spec, obs[i]) {
						cls = "randdata-skipped-union-field-stays-nil"
					}
					e.m.fail(oracleFailure{What: "rand" + rec.Type + "(): " + rec.Msg, Input: map[string]interface{}{"module": spec, "type": rec.Type, "value": rec.JSON}, Class: cls})
				} else {
					e.m.sample(map[string]interface{}{"module": spec.Name, "type": rec.Type, "value": rec.JSON})
				}
			case "rand-variation":
				parts := strings.Split(rec.Msg, "/")
				variation[rec.Type], _ = strconv.Atoi(parts[0])
				if len(parts) > 1 && parts[1] == "1" {
					variation[rec.Type] = 1 << 20 // the type admits a single value
				}
			}
		}
		var runs []string
		cls := ""
		for _, t := range order {
			runs = append(runs, fmt.Sprintf("(%s, %s)", coqNamedRef(obs[i].RootPkg, t), coqBool(returned[t])))
			if !returned[t] {
				cls = "randdata-recursive-type-never-returns"
			} else if variation[t] < 2 && samples >= 4 {
				e.m.fail(oracleFailure{What: fmt.Sprintf("rand%s() returned the same value %d times although the type admits several", t, samples), Input: spec})
			}
		}
		cases = append(cases, fmt.Sprintf("{| c15_prog := %s;\n c15_enums := %s;\n c15_ana := %s;\n c15_runs := %s;\n c15_vals := %s |}", obs[i].Facts, obs[i].Enums, obs[i].Ana, coqList(runs), coqListNL(vals)))
		inputs = append(inputs, map[string]interface{}{"module": spec, "returned": returned, "not_returned": notReturned, "class": cls, "class_scope": "property-only"})
		if len(cases) == 4 {
			e.writeCases2(fmt.Sprintf("cases_C15_%d", len(e.m.CaseFiles)), anaHeader+"From GM Require Import Model.RandData Sem.GoJson Sem.GoVal Sem.RandSem Corr.Check_C15.\nLocal Open Scope Z_scope.\nNotation rc := Build_rcall.\n", "mismatches", "prop_failures", cases, inputs)
			cases, inputs = nil, nil
		}
	}
	if len(cases) > 0 {
		e.writeCases2(fmt.Sprintf("cases_C15_%d", len(e.m.CaseFiles)), anaHeader+"From GM Require Import Model.RandData Sem.GoJson Sem.GoVal Sem.RandSem Corr.Check_C15.\nLocal Open Scope Z_scope.\nNotation rc := Build_rcall.\n", "mismatches", "prop_failures", cases, inputs)
	}
}

func classifyRand(r binRecord) string {
	if strings.Contains(r.Msg, "defined time type without JSON methods") {
		return "named-time-type-without-json-methods"
	}
	return ""
}

var reDataIgnoredField = regexp.MustCompile("(?m)^\\t\\w+ (\\w+) .*gomacro-data:\"ignore\"")

// a field of union type skipped for data generation stays nil, and the generated JSON routines panic on a nil union
func hasSkippedUnionField(m *modSpec, o *obsResult) bool {
	unions := map[string]bool{}
	for _, n := range o.Nameds {
		if n.Kind == "KdUnion" {
			unions[n.Local] = true
		}
	}
	for _, f := range m.Files {
		for _, g := range reDataIgnoredField.FindAllStringSubmatch(f.Src, -1) {
			if unions[g[1]] {
				return true
			}
		}
	}
	return false
}

// empty structs and [0]T arrays admit a single value
func admitsTwoValues(o *obsResult, local string) bool {
	for _, st := range o.Structs {
		if st.Local == local {
			for _, f := range st.Fields {
				if f.GoExported && !strings.Contains(f.Tag, `gomacro-data:"ignore"`) {
					return true
				}
			}
			return false
		}
	}
	return true
}

func corpusRand() []*modSpec {
	mk := func(name, src string, extra ...modFile) *modSpec {
		return &modSpec{Name: name, ModPath: "example.com/org/models", Target: "models.go",
			Files: append([]modFile{{"models.go", src}}, extra...)}
	}
	return []*modSpec{
		mk("rand-recursive", "package models\n\ntype Tree struct {\n\tName string\n\tChildren []Tree\n}\n\ntype Leaf struct{ V int }\n"),
		mk("rand-recursive-union", "package models\n\ntype Expr interface{ isExpr() }\ntype Lit struct{ V int }\ntype Add struct{ L, R Expr }\n\nfunc (Lit) isExpr() {}\nfunc (Add) isExpr() {}\n\ntype S struct{ E Expr }\n"),
		mk("rand-skip-and-enums", "package models\n\nimport \"time\"\n\ntype E int\n\nconst (\n\tA E = iota\n\tb\n\tC\n)\n\ntype SE string\n\nconst (\n\tX SE = \"x\"\n\tY SE = \"y\"\n)\n\ntype U interface{ isU() }\ntype M1 struct{ V E }\ntype M2 []int\n\nfunc (M1) isU() {}\nfunc (M2) isU() {}\n\ntype S struct {\n\tKeep int\n\tSkip int `gomacro-data:\"ignore\"`\n\thidden string\n\tE E\n\tSE SE\n\tU U\n\tL []U2\n\tM map[SE]M1\n\tF [3]E\n\tT time.Time\n\tTs []time.Time\n}\n\ntype U2 interface{ isU2() }\n\nfunc (M1) isU2() {}\n"),
		mk("rand-iota-sentinel", "package models\n\ntype Kind int\n\nconst (\n\tCircle Kind = iota\n\tSquare\n\tTriangle\n\tnbKinds // sentinel\n)\n\ntype Mode uint8\n\nconst (\n\tfirstMode Mode = iota\n\tOn\n\tOff\n)\n\ntype Shape struct {\n\tK Kind\n\tKs []Kind\n\tM Mode\n\tByKind map[Kind]int\n}\n"),
		mk("rand-hidden-from-json", "package models\n\ntype Kind int\n\nconst (\n\tCircle Kind = iota + 1\n\tSquare\n\tTriangle\n)\n\ntype Shape interface{ isShape() }\ntype A struct{ X int }\ntype B struct{ Y string }\n\nfunc (A) isShape() {}\nfunc (B) isShape() {}\n\ntype Holder struct {\n\tK Kind `json:\"-\"`\n\tS Shape `json:\"-\"`\n\tHidden []int `gomacro:\"ignore\"`\n\tM map[string]Kind `json:\"-\" gomacro:\"ignore\"`\n\tSkip int `gomacro-data:\"ignore\"`\n\tName string\n}\n"),
		mk("rand-imported-package-named-like-the-analysed-one", "package models\n\nimport shared \"example.com/org/models/shared/models\"\n\ntype Order struct {\n\tStatus shared.Status\n\tCurrency shared.Currency\n\tHistory []shared.Status\n}\n",
			modFile{"shared/models/models.go", "package models\n\ntype Status int\n\nconst (\n\tPending Status = iota + 1\n\tPaid\n\tShipped\n)\n\ntype Currency string\n\nconst (\n\tEUR Currency = \"EUR\"\n\tUSD Currency = \"USD\"\n)\n\ntype Payment interface{ isPayment() }\ntype Card struct{ N int }\ntype Cash struct{ Amount int }\n\nfunc (Card) isPayment() {}\nfunc (Cash) isPayment() {}\n"}),
		mk("rand-embedded-pointer", "package models\n\ntype Audit struct {\n\tAuthor string\n\tAt int\n}\n\ntype Meta struct{ Tags []string }\n\ntype Record struct {\n\t*Audit\n\tMeta\n\tTitle string\n}\n"),
		mk("rand-maps-with-few-keys", "package models\n\ntype Color int\n\nconst (\n\tRed Color = iota\n\tGreen\n\tBlue\n)\n\ntype Level string\n\nconst (\n\tLow Level = \"low\"\n\tHigh Level = \"high\"\n)\n\ntype Palette struct {\n\tWeights map[Color]int\n\tLevels map[Level][]int\n\tNames map[string]Color\n}\n"),
		mk("rand-skipped-union-field", "package models\n\ntype Shape interface{ isShape() }\n\ntype Circle struct{ R int }\n\nfunc (Circle) isShape() {}\n\ntype Holder struct {\n\tName string\n\tS Shape `gomacro-data:\"ignore\"`\n}\n\ntype Box struct{ H Holder }\n"),
		mk("rand-empty", "package models\n\ntype Empty struct{}\ntype OnlyHidden struct{ a int }\ntype Zero [0]int\n\ntype S struct {\n\tE Empty\n\tO OnlyHidden\n\tZ Zero\n}\n"),
	}
}
