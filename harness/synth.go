package main

// Seeded synthesiser of well-typed Go modules built from the declaration forms the properties quantify over.
// Every random choice is drawn from the single PRNG of the run.

import (
	"regexp"
	"fmt"
	"strings"
)

type profile struct {
	Enums, Unions, Structs, NamedBasics, Containers, Time, SubPkg, Generics, Embedded bool
	Pointers                                                                          bool // pointer fields (analysis supports them; most generators refuse)
	Unsupported                                                                       bool // chan, func, anonymous struct, empty interface, complex: analysis must refuse with a diagnostic
	Recursive                                                                         bool // self / mutually recursive structs through slices and maps
	OddNames                                                                          bool // one-letter type names, short package names
	MultiConst                                                                        bool // const A, B T = 0, 1
	AnonUnion                                                                         bool // anonymous containers of unions (gounions refuses)
	SQL                                                                               bool // model-file shape: id fields, foreign keys, comments
	TagsAll                                                                           bool // every json tag spelling
	NoNamedTime                                                                       bool // no defined types over time.Time (they have no JSON methods)
	NoBytes                                                                           bool // no []byte / []uint8 (base64 on the wire)
	ModShape                                                                          int  // 0: example.com/org/mod, 1: one element, 2: deep, 3: random (incl. two elements), 4: two elements
	TagsSafe                                                                          bool // tag spellings every target handles: names, "-", gomacro ignore / opaque / data-ignore, with and without a json name
	TagsOmitempty                                                                     bool // with TagsSafe: also omitempty
	SiblingMembers                                                                    bool // some union members are declared in the sibling file of the package
	IgnoreOnWire                                                                      bool // with TagsSafe: gomacro:"ignore" on fields that encoding/json still serialises
}

func fullProfile() profile {
	return profile{Enums: true, Unions: true, Structs: true, NamedBasics: true, Containers: true, Time: true, SubPkg: true,
		Generics: true, Embedded: true, Recursive: true, TagsAll: true, ModShape: 3, SiblingMembers: true}
}

type synth struct {
	r    *rng
	p    profile
	b    strings.Builder // analysed file
	o    strings.Builder // sibling file (other.go)
	sub  strings.Builder // sub-package file
	n    int
	pkg  string
	subN string // sub-package name

	// pools of declared type names (usable as field types)
	basics   []string // named basics (non enum)
	ints     []string // named ints usable as map keys
	enums    []string
	intEnums []string
	structs  []string // declared so far (by-value use allowed only for earlier ones)
	unions   []string
	members  map[string][]string
	lists    []string // named slices
	maps     []string
	arrays   []string
	times    []string // named time types
	ids      []string // Id types
	subTypes []string // qualified sub-package types
	generics []string // instantiated generic refs, e.g. Generic[IdX]
	needTime bool
	needSub  bool
	tags     map[string]bool
}

var goBasicKinds = []string{"bool", "int", "int8", "int16", "int32", "int64", "uint8", "uint16", "byte", "rune", "float64", "string", "uint", "uint32", "uint64", "float32"}
var commonKinds = []string{"bool", "int", "int64", "float64", "string", "int32", "uint8", "int16"}

func (s *synth) fresh(prefix string) string {
	s.n++
	if s.p.OddNames && s.r.chance(1, 6) {
		// one-letter (or two-letter) exported names
		return string(rune('A'+s.n%26)) + map[bool]string{true: "", false: fmt.Sprint(s.n)}[s.n < 26]
	}
	return fmt.Sprintf("%s%d", prefix, s.n)
}

func (s *synth) tag(t string) { s.tags[t] = true }

func (s *synth) basicKind() string {
	if s.r.chance(3, 4) {
		return pick(s.r, commonKinds)
	}
	return pick(s.r, goBasicKinds)
}

// keyType returns a comparable type usable as a JSON map key
func (s *synth) keyType() string {
	opts := []string{"string", "int", "int64"}
	opts = append(opts, s.ints...)
	opts = append(opts, s.intEnums...)
	opts = append(opts, s.ids...)
	return pick(s.r, opts)
}

// anyType returns a random field type. byValueStructs = structs that may be used by value here.
func (s *synth) anyType(depth int, byValue []string, allowUnion bool) string {
	type opt struct {
		w int
		f func() string
	}
	var opts []opt
	add := func(w int, f func() string) { opts = append(opts, opt{w, f}) }
	add(6, s.basicKind)
	pool := func(w int, names []string) {
		if len(names) > 0 {
			add(w, func() string { return pick(s.r, names) })
		}
	}
	pool(3, s.basics)
	pool(3, s.enums)
	pool(3, byValue)
	pool(2, s.lists)
	pool(2, s.maps)
	pool(1, s.arrays)
	pool(2, s.times)
	pool(2, s.ids)
	pool(2, s.subTypes)
	pool(1, s.generics)
	if allowUnion {
		pool(3, s.unions)
	}
	if s.p.Time {
		add(2, func() string { s.needTime = true; return "time.Time" })
	}
	if s.p.Containers && depth < 2 {
		add(3, func() string {
			el := s.anyType(depth+1, s.structs, s.p.AnonUnion)
			if s.p.NoBytes && s.isByteLike(el) {
				el = "int"
			}
			return "[]" + el
		})
		add(1, func() string {
			return fmt.Sprintf("[%d]%s", pick(s.r, []int{0, 1, 2, 5}), s.elemNoSlice(depth+1, byValue))
		})
		add(2, func() string { return "map[" + s.keyType() + "]" + s.anyType(depth+1, s.structs, s.p.AnonUnion) })
	}
	if s.p.Pointers && depth < 2 {
		add(1, func() string { return "*" + s.anyType(depth+1, s.structs, false) })
	}
	if s.p.Unsupported && s.r.chance(1, 6) {
		add(2, func() string {
			return pick(s.r, []string{"chan int", "func() int", "struct{ X int }", "interface{}", "complex128", "any", "error", "[]chan bool", "map[string]func()"})
		})
	}
	total := 0
	for _, o := range opts {
		total += o.w
	}
	k := s.r.intn(total)
	for _, o := range opts {
		if k < o.w {
			return o.f()
		}
		k -= o.w
	}
	return "int"
}

// element type for fixed arrays: the TypeScript generator refuses fixed arrays of slices/maps, so avoid them
func (s *synth) elemNoSlice(depth int, byValue []string) string {
	for i := 0; i < 10; i++ {
		t := s.anyType(depth+1, byValue, false)
		if !strings.HasPrefix(t, "[]") && !strings.HasPrefix(t, "map[") && !strings.HasPrefix(t, "*") {
			return t
		}
	}
	return "int"
}

var jsonTagSpellings = []string{
	"", "", "", `json:"%s"`, `json:"%s,omitempty"`, `json:",omitempty"`, `json:"-"`, `json:"-,"`,
	`xml:"a" json:"%s"`, `json:"%s" xml:"b"`, `gomacro:"ignore"`, `json:"%s" gomacro:"ignore"`,
	`gomacro-opaque:"dart"`, `gomacro-opaque:"typescript"`, `gomacro-opaque:"dart, typescript"`, `gomacro-data:"ignore"`,
	`json:"%s,string"`, `json:"with space"`, `json:"a.b"`, `json:"é"`,
}

var safeTagSpellings = []string{
	"", "", "", "", `json:"%s"`, `json:"-"`, `json:"-" gomacro:"ignore"`,
	`gomacro-opaque:"typescript"`, `json:"%s" gomacro-opaque:"typescript"`, `json:"%s" gomacro-opaque:"dart"`, `gomacro-opaque:"dart, typescript"`,
	`gomacro-data:"ignore"`, `json:"%s" gomacro-data:"ignore"`, `xml:"a" json:"%s"`,
}

func (s *synth) fieldTag(name string) string {
	if !s.p.TagsAll && s.p.TagsSafe {
		l := safeTagSpellings
		if s.p.TagsOmitempty {
			l = append(append([]string(nil), l...), `json:"%s,omitempty"`, `json:",omitempty"`)
		}
		if s.p.IgnoreOnWire {
			// gomacro:"ignore" on a field encoding/json still writes: the key is on the wire and in no other output
			l = append(append([]string(nil), l...), `gomacro:"ignore"`, `json:"%s" gomacro:"ignore"`)
		}
		sp := pick(s.r, l)
		if sp == "" {
			return ""
		}
		if strings.Contains(sp, "%s") {
			sp = fmt.Sprintf(sp, "k_"+strings.ToLower(name))
		}
		s.tag("tag:" + strings.SplitN(strings.ReplaceAll(sp, "k_"+strings.ToLower(name), "N"), " ", 2)[0])
		return "`" + sp + "`"
	}
	if !s.p.TagsAll {
		if s.r.chance(1, 5) {
			return fmt.Sprintf("`json:\"%s\"`", strings.ToLower(name))
		}
		return ""
	}
	sp := pick(s.r, jsonTagSpellings)
	if sp == "" {
		return ""
	}
	if strings.Contains(sp, "%s") {
		sp = fmt.Sprintf(sp, "k_"+strings.ToLower(name))
	}
	s.tag("tag:" + strings.SplitN(strings.ReplaceAll(sp, "k_"+strings.ToLower(name), "N"), " ", 2)[0])
	return "`" + sp + "`"
}

// isByteLike: byte, uint8 or a type defined over them in this module (a slice of those is base64 text on the wire)
func (s *synth) isByteLike(el string) bool {
	if el == "byte" || el == "uint8" {
		return true
	}
	name := el
	if i := strings.LastIndex(el, "."); i >= 0 {
		name = el[i+1:]
	}
	re := regexp.MustCompile(`(?m)^type ` + regexp.QuoteMeta(name) + ` (uint8|byte)\b`)
	return re.MatchString(s.b.String()) || re.MatchString(s.o.String()) || re.MatchString(s.sub.String())
}

func (s *synth) declNamedBasic() {
	name := s.fresh("N")
	k := s.basicKind()
	fmt.Fprintf(&s.b, "type %s %s\n\n", name, k)
	s.basics = append(s.basics, name)
	if strings.HasPrefix(k, "int") || strings.HasPrefix(k, "uint") {
		s.ints = append(s.ints, name)
	}
	if k == "int64" && s.r.chance(1, 2) {
		id := "Id" + name
		fmt.Fprintf(&s.b, "type %s int64\n\n", id)
		s.ids = append(s.ids, id)
	}
}

// enum styles
func (s *synth) declEnum() {
	name := s.fresh("E")
	style := s.r.intn(12)
	w := &s.b
	if s.r.chance(1, 5) {
		w = &s.o // declared in the sibling file
	}
	isInt := true
	mem := func(i int) string { return fmt.Sprintf("%s_%c", name, 'A'+i) }
	n := 2 + s.r.intn(4)
	switch style {
	case 0, 1: // plain iota block
		fmt.Fprintf(w, "type %s int\n\nconst (\n", name)
		for i := 0; i < n; i++ {
			if i == 0 {
				fmt.Fprintf(w, "\t%s %s = iota // label %d\n", mem(i), name, i)
			} else if s.r.chance(1, 3) {
				fmt.Fprintf(w, "\t%s // label %d\n", mem(i), i)
			} else {
				fmt.Fprintf(w, "\t%s\n", mem(i))
			}
		}
		fmt.Fprint(w, ")\n\n")
		s.tag("enum:iota")
	case 2: // explicit values with gaps / negatives
		fmt.Fprintf(w, "type %s int16\n\nconst (\n", name)
		for i := 0; i < n; i++ {
			fmt.Fprintf(w, "\t%s %s = %d\n", mem(i), name, pick(s.r, []int{-3, 0, 1, 2, 4, 7, 10})+i*11)
		}
		fmt.Fprint(w, ")\n\n")
		s.tag("enum:explicit")
	case 3: // duplicates among exported values
		fmt.Fprintf(w, "type %s uint8\n\nconst (\n", name)
		vals := []int{0, 1, 1, 2, 0, 3}
		for i := 0; i < n; i++ {
			fmt.Fprintf(w, "\t%s %s = %d\n", mem(i), name, vals[i])
		}
		fmt.Fprint(w, ")\n\n")
		s.tag("enum:duplicates")
	case 4: // string enum
		isInt = false
		fmt.Fprintf(w, "type %s string\n\nconst (\n", name)
		for i := 0; i < n; i++ {
			fmt.Fprintf(w, "\t%s %s = \"v%d\" // text %d\n", mem(i), name, i, i)
		}
		fmt.Fprint(w, ")\n\n")
		s.tag("enum:string")
	case 5: // unexported members interleaved, iota
		fmt.Fprintf(w, "type %s int\n\nconst (\n", name)
		for i := 0; i < n; i++ {
			m := mem(i)
			if i%2 == 1 {
				m = strings.ToLower(m[:1]) + m[1:]
			}
			if i == 0 {
				fmt.Fprintf(w, "\t%s %s = iota\n", m, name)
			} else {
				fmt.Fprintf(w, "\t%s\n", m)
			}
		}
		fmt.Fprint(w, ")\n\n")
		s.tag("enum:unexported-interleaved")
	case 6: // single-line ungrouped constants, with an opt-out
		fmt.Fprintf(w, "type %s int\n\n", name)
		for i := 0; i < n; i++ {
			fmt.Fprintf(w, "const %s %s = %d\n", mem(i), name, i)
		}
		fmt.Fprintf(w, "const %sMax %s = 100 // gomacro:no-enum\n\n", name, name)
		s.tag("enum:single-line+optout")
	case 7: // shifted iota and blank
		fmt.Fprintf(w, "type %s uint\n\nconst (\n\t%s %s = 1 << iota\n\t_\n\t%s\n\t%s\n)\n\n", name, mem(0), name, mem(1), mem(2))
		s.tag("enum:shifted-blank")
	case 8: // typed through conversion, bool and float enums
		if s.r.bool() {
			isInt = false
			fmt.Fprintf(w, "type %s bool\n\nconst (\n\t%s = %s(true)\n\t%s = %s(false)\n)\n\n", name, mem(0), name, mem(1), name)
		} else {
			isInt = false
			fmt.Fprintf(w, "type %s float64\n\nconst (\n\t%s %s = 0.5\n\t%s %s = 1\n)\n\n", name, mem(0), name, mem(1), name)
		}
		s.tag("enum:bool-float")
	case 9: // all opted out: not an enum
		fmt.Fprintf(w, "type %s int\n\nconst (\n\t%s %s = 1 // gomacro:no-enum\n\t%s %s = 2 // a limit gomacro:no-enum\n)\n\n", name, mem(0), name, mem(1), name)
		s.basics = append(s.basics, name)
		s.ints = append(s.ints, name)
		s.tag("enum:all-optout")
		return
	case 10: // multi-name spec
		if s.p.MultiConst {
			fmt.Fprintf(w, "type %s int\n\nconst %s, %s %s = 0, 1\n\n", name, mem(0), mem(1), name)
			s.tag("enum:multi-name")
		} else {
			fmt.Fprintf(w, "type %s int\n\nconst (\n\t%s %s = iota + 1\n\t%s\n)\n\n", name, mem(0), name, mem(1))
			s.tag("enum:iota+1")
		}
	default: // iota with values not starting at the first declared name (sorted scope order differs from value order)
		fmt.Fprintf(w, "type %s int\n\nconst (\n\t%sZ %s = iota\n\t%sY\n\t%sX\n)\n\n", name, name, name, name, name)
		s.tag("enum:reverse-names")
	}
	s.enums = append(s.enums, name)
	if isInt {
		s.intEnums = append(s.intEnums, name)
	}
}

func (s *synth) declStruct() string {
	name := s.fresh("S")
	byValue := append([]string(nil), s.structs...)
	nf := s.r.intn(6)
	fmt.Fprintf(&s.b, "type %s struct {\n", name)
	if s.p.Embedded && len(byValue) > 0 && s.r.chance(1, 5) {
		if s.r.chance(1, 3) {
			// an option-only json tag: encoding/json (and the analysis) still flatten the embedded struct
			fmt.Fprintf(&s.b, "\t%s `json:\",omitempty\"`\n", pick(s.r, byValue))
			s.tag("embedded-struct-option-only-tag")
		} else {
			fmt.Fprintf(&s.b, "\t%s\n", pick(s.r, byValue))
		}
		s.tag("embedded-struct")
	} else if s.p.Embedded && s.r.chance(1, 8) {
		// an embedded struct whose type is unexported: its exported fields are promoted all the same
		s.n++
		base := fmt.Sprintf("base%d", s.n)
		fmt.Fprintf(&s.o, "type %s struct {\n\tP%s int\n\tQ%s string `json:\"q_%s\"`\n\thidden%s bool\n}\n\n", base, base, base, base, base)
		fmt.Fprintf(&s.b, "\t%s\n", base)
		s.tag("embedded-unexported-struct")
	}
	for i := 0; i < nf; i++ {
		// field names are unique across structs, so that flattening an embedded struct never shadows a field
		// (shadowing is a known-finding class with its own corpus entry)
		fname := fmt.Sprintf("F%s%d", name, i)
		if s.r.chance(1, 8) {
			fname = fmt.Sprintf("f%s%d", name, i) // unexported
		}
		ty := s.anyType(0, byValue, true)
		if s.p.Recursive && s.r.chance(1, 10) {
			ty = pick(s.r, []string{"[]" + name, "map[string]" + name, "[]" + name})
			s.tag("recursive")
		}
		fmt.Fprintf(&s.b, "\t%s %s %s\n", fname, ty, s.fieldTag(fname))
	}
	fmt.Fprint(&s.b, "}\n\n")
	s.structs = append(s.structs, name)
	return name
}

func (s *synth) declUnion() {
	s.n++
	// the first two letters differ from one union to the next (the generated constant names use them)
	name := fmt.Sprintf("%c%cUnion%d", 'A'+len(s.unions)%26, 'a'+(len(s.unions)/26)%26, s.n)
	marker := "is" + name
	fmt.Fprintf(&s.b, "type %s interface {\n\t%s()\n}\n\n", name, marker)
	// members: some existing structs / named basics / lists, plus fresh structs
	var mem []string
	n := 1 + s.r.intn(3)
	for i := 0; i < n; i++ {
		var m string
		switch {
		case len(s.structs) > 0 && s.r.chance(1, 2):
			m = pick(s.r, s.structs)
		case len(s.basics) > 0 && s.r.chance(1, 3):
			m = pick(s.r, s.basics)
		case len(s.lists) > 0 && s.r.chance(1, 4):
			m = pick(s.r, s.lists)
		case s.p.SiblingMembers && s.r.chance(1, 3):
			// a member declared in the sibling file of the package (plain fields only)
			m = s.fresh("S")
			fmt.Fprintf(&s.o, "type %s struct {\n\tV%s int\n\tW%s string\n}\n\n", m, m, m)
			s.structs = append(s.structs, m)
			s.tag("union:member-in-sibling-file")
		default:
			m = s.declStruct()
		}
		dup := false
		for _, x := range mem {
			if x == m {
				dup = true
			}
		}
		if dup {
			continue
		}
		mem = append(mem, m)
		fmt.Fprintf(&s.b, "func (%s) %s() {}\n", m, marker)
	}
	// a pointer-receiver implementer is NOT a member
	if s.r.chance(1, 4) {
		p := s.declStruct()
		fmt.Fprintf(&s.b, "func (*%s) %s() {}\n", p, marker)
		s.tag("union:pointer-receiver-nonmember")
	}
	fmt.Fprint(&s.b, "\n")
	s.unions = append(s.unions, name)
	s.members[name] = mem
	if s.r.chance(1, 3) {
		l := s.fresh("L")
		fmt.Fprintf(&s.b, "type %s []%s\n\n", l, name)
		s.lists = append(s.lists, l)
		s.tag("union:named-slice")
	}
	if s.r.chance(1, 4) {
		m := s.fresh("M")
		fmt.Fprintf(&s.b, "type %s map[%s]%s\n\n", m, pick(s.r, []string{"string", "int"}), name)
		s.maps = append(s.maps, m)
		s.tag("union:named-map")
	}
}

func (s *synth) declContainer() {
	switch s.r.intn(3) {
	case 0:
		n := s.fresh("L")
		el := s.anyType(1, s.structs, false)
		if s.p.NoBytes && s.isByteLike(el) {
			el = "int"
		}
		fmt.Fprintf(&s.b, "type %s []%s\n\n", n, el)
		s.lists = append(s.lists, n)
	case 1:
		n := s.fresh("M")
		fmt.Fprintf(&s.b, "type %s map[%s]%s\n\n", n, s.keyType(), s.anyType(1, s.structs, false))
		s.maps = append(s.maps, n)
	default:
		n := s.fresh("A")
		fmt.Fprintf(&s.b, "type %s [%d]%s\n\n", n, pick(s.r, []int{1, 2, 3, 5}), s.elemNoSlice(1, s.structs))
		s.arrays = append(s.arrays, n)
	}
}

func (s *synth) declTime() {
	s.needTime = true
	name := s.fresh(pick(s.r, []string{"Date", "Moment", "MyDate", "Stamp"}))
	fmt.Fprintf(&s.b, "type %s time.Time\n\n", name)
	s.times = append(s.times, name)
	s.tag("named-time")
}

func modPathFor(r *rng, shape int, odd bool) (string, string) {
	if shape == 3 {
		shape = []int{0, 1, 2, 4}[r.intn(4)]
	}
	pkg := pick(r, []string{"models", "data", "core"})
	if odd && r.chance(1, 2) {
		pkg = pick(r, []string{"m", "db", "x"})
	}
	switch shape {
	case 1:
		return pkg, pkg
	case 4: // the module root is the two-element prefix the package selector keeps
		return "example.com/" + pkg, pkg
	case 2:
		return "example.com/org/proj/internal/" + pkg, pkg
	default:
		return "example.com/org/" + pkg, pkg
	}
}

// synthModule builds one random module.
func synthModule(r *rng, p profile, idx int) *modSpec {
	s := &synth{r: r, p: p, members: map[string][]string{}, tags: map[string]bool{}}
	modPath, pkg := modPathFor(r, p.ModShape, p.OddNames)
	s.pkg = pkg
	s.subN = "sub"
	if p.OddNames && r.bool() {
		s.subN = pick(r, []string{"s", "ab"})
	}
	if p.SubPkg && r.chance(2, 3) {
		s.needSub = true
		fmt.Fprintf(&s.sub, "package %s\n\ntype SubEnum int\n\nconst (\n\tSA SubEnum = iota // sub a\n\tSB\n)\n\ntype SubStruct struct {\n\tA int\n\tE SubEnum\n}\n\ntype SubList []int\n\ntype SubID int64\n\n", s.subN)
		s.subTypes = []string{s.subN + ".SubEnum", s.subN + ".SubStruct", s.subN + ".SubList", s.subN + ".SubID"}
		if r.chance(1, 2) {
			// same type name in two packages
			fmt.Fprintf(&s.sub, "type E1 int\n\nconst (\n\tE1_sub E1 = iota + 5\n)\n\n")
			s.subTypes = append(s.subTypes, s.subN+".E1")
			s.tag("same-name-two-packages")
		}
	}
	if p.Generics && r.chance(1, 2) {
		fmt.Fprintf(&s.o, "type Generic[T any] struct {\n\tV T\n\tValid bool\n}\n\n")
		s.tag("generic")
	}
	nDecl := 4 + r.intn(10)
	for i := 0; i < nDecl; i++ {
		switch k := r.intn(12); {
		case k < 2 && p.NamedBasics:
			s.declNamedBasic()
		case k < 4 && p.Enums:
			s.declEnum()
		case k < 7 && p.Structs:
			s.declStruct()
		case k < 9 && p.Unions:
			s.declUnion()
		case k < 10 && p.Containers:
			s.declContainer()
		case k < 11 && p.Time && !p.NoNamedTime:
			s.declTime()
		default:
			if p.Structs {
				s.declStruct()
			}
		}
		if s.tags["generic"] && len(s.generics) < 2 && len(s.ids)+len(s.structs) > 0 && r.chance(1, 3) {
			arg := pick(r, append(append([]string(nil), s.ids...), s.structs...))
			s.generics = append(s.generics, "Generic["+arg+"]")
		}
	}
	// make sure there is at least one struct using a bit of everything declared
	s.declStruct()

	var head strings.Builder
	fmt.Fprintf(&head, "package %s\n\n", pkg)
	var imports []string
	if s.needTime || strings.Contains(s.b.String(), "time.") {
		imports = append(imports, `"time"`)
	}
	usesSub := s.needSub && strings.Contains(s.b.String(), s.subN+".")
	if usesSub {
		imports = append(imports, `"`+modPath+"/"+s.subN+`"`)
	}
	if len(imports) > 0 {
		fmt.Fprintf(&head, "import (\n\t%s\n)\n\n", strings.Join(imports, "\n\t"))
	}
	m := &modSpec{Name: fmt.Sprintf("synth%d", idx), ModPath: modPath, GoSrc: r.chance(1, 2), Target: "models.go"}
	m.Files = append(m.Files, modFile{"models.go", head.String() + s.b.String()})
	other := "package " + pkg + "\n\n" + s.o.String()
	m.Files = append(m.Files, modFile{"other.go", other})
	if s.needSub {
		m.Files = append(m.Files, modFile{s.subN + "/sub.go", s.sub.String()})
		if !usesSub {
			// still import it so that the walk sees it
			m.Files[1].Src = "package " + pkg + "\n\nimport \"" + modPath + "/" + s.subN + "\"\n\nvar _ " + s.subN + ".SubEnum\n\n" + s.o.String()
		}
	}
	for t := range s.tags {
		m.Tags = append(m.Tags, t)
	}
	return m
}
