package main

import (
	"fmt"
	"regexp"
	"sort"
	"strings"
)

func init() { commands["C18"] = runC18 }

var c18stages = []string{"ts", "sql", "gounions", "randdata", "sqlcrud", "sqlcrud_sets", "dart"}

func runC18(e *env) {
	e.m.Rule = "corpus modules (one-letter / two-letter type and package names, multi-name constants, generic instantiations with basic arguments, named and self-referential pointers, odd enum member names, every unsupported form in a field, " +
		"malformed SQL directives) then seeded synthesised modules mixing supported forms in unusual spellings with unsupported forms in every position; one evaluation = one (module, stage) pair for the 8 stages analysis + 7 generators; " +
		"the recovered panic value decides: runtime.Error or a fatal error = crash; non-trivial = the module contains at least one odd spelling or unsupported form"
	e.m.Extra = map[string]interface{}{"mismatch_means": "property"}
	specs := append(corpusCrash(), repoFixtures("repo-testsource-defs", "repo-testsource-other", "repo-sql-models")...)
	n := 30
	if e.thorough() {
		n = 400
	}
	for i := 0; i < n; i++ {
		prof := fullProfile()
		prof.OddNames = true
		prof.MultiConst = true
		prof.Pointers = e.r.chance(1, 2)
		prof.Unsupported = e.r.chance(1, 3)
		prof.AnonUnion = e.r.chance(1, 4)
		prof.SQL = true
		specs = append(specs, synthModule(e.r, prof, i))
	}
	obs := observeAll(specs, "all", 14)
	var cases []string
	var inputs []interface{}
	for i, o := range obs {
		spec := specs[i]
		if o.LoadErr != "" {
			e.m.count("rejected_by_type_checker")
			e.m.Extra["last_rejected"] = spec.Name + ": " + o.LoadErr
			continue
		}
		e.m.Nontrivial++
		stageOutcome := map[string]string{"analysis": o.Outcome}
		msgs := map[string]string{"analysis": o.Msg}
		for _, st := range c18stages {
			if g, ok := o.Gen[st]; ok {
				stageOutcome[st] = g.Outcome
				msgs[st] = g.Msg
			}
		}
		var names []string
		for st := range stageOutcome {
			names = append(names, st)
		}
		sort.Strings(names)
		for _, st := range names {
			oc := stageOutcome[st]
			e.m.Evaluations++
			e.m.OracleRuns++
			e.m.count(st + "_" + oc)
			if oc == "crash" || oc == "fatal" {
				cls := classifyCrash(st, msgs[st])
				e.m.fail(oracleFailure{What: fmt.Sprintf("%s dies with a Go runtime error on a well-typed file: %s", st, msgs[st]), Input: spec, Class: cls, Got: msgs[st]})
			}
		}
		e.m.sample(map[string]interface{}{"module": spec.Name, "source": spec.Files[0].Src, "outcomes": stageOutcome})
		if o.Outcome == "fatal" {
			continue
		}
		nameObs := c18names(o)
		e.m.Distribution["name_observations"] += len(nameObs)
		cases = append(cases, fmt.Sprintf("{| c18_graph := {| c12_prog := %s;\n c12_source := %s;\n c12_ana := %s |};\n c18_names := %s |}", o.Facts, o.Source, o.Ana, coqListNL(nameObs)))
		inputs = append(inputs, map[string]interface{}{"module": spec, "outcomes": stageOutcome, "messages": msgs})
		if len(cases) == 5 {
			e.writeCases2(fmt.Sprintf("cases_C18_%d", len(e.m.CaseFiles)), anaHeader+"From GM Require Import Model.Unions Model.Classify Model.Names Corr.Check_C12 Corr.Check_C18.\n", "mismatches", "prop_failures", cases, inputs)
			cases, inputs = nil, nil
		}
	}
	if len(cases) > 0 {
		e.writeCases2(fmt.Sprintf("cases_C18_%d", len(e.m.CaseFiles)), anaHeader+"From GM Require Import Model.Unions Model.Classify Model.Names Corr.Check_C12 Corr.Check_C18.\n", "mismatches", "prop_failures", cases, inputs)
	}
}

var (
	reGoConst   = regexp.MustCompile(`(?m)^\s*(\w+) = "(\w+)"$`)
	reRandFunc  = regexp.MustCompile(`func rand(\w+)\(\)`)
	reSQLFnName = regexp.MustCompile(`FUNCTION gomacro_validate_json_(\w+) \(`)
	reDartEnum  = regexp.MustCompile(`(?s)enum\s+(\w+) \{\s*(.*?)\s*\}`)
)

// the names produced by the slicing functions, as they appear in the generated texts
func c18names(o *obsResult) []string {
	var out []string
	seen := map[string]bool{}
	add := func(s string) {
		if !seen[s] {
			seen[s] = true
			out = append(out, s)
		}
	}
	gu, rd, sq, da := o.Gen["gounions"], o.Gen["randdata"], o.Gen["sql"], o.Gen["dart"]
	constsByValue := map[string][]string{}
	if gu.Outcome == "ok" {
		for _, m := range reGoConst.FindAllStringSubmatch(gu.Text, -1) {
			constsByValue[m[2]] = append(constsByValue[m[2]], m[1])
		}
	}
	var randIDs, sqlIDs []string
	if rd.Outcome == "ok" {
		for _, m := range reRandFunc.FindAllStringSubmatch(rd.Text, -1) {
			randIDs = append(randIDs, m[1])
		}
	}
	if sq.Outcome == "ok" {
		for _, m := range reSQLFnName.FindAllStringSubmatch(sq.Text, -1) {
			sqlIDs = append(sqlIDs, m[1])
		}
	}
	dartEnums := map[string][]string{}
	if da.Outcome == "ok" {
		for _, m := range reDartEnum.FindAllStringSubmatch(da.Text, -1) {
			var ms []string
			for _, x := range strings.Split(m[2], ",") {
				ms = append(ms, strings.TrimSpace(x))
			}
			dartEnums[m[1]] = ms
		}
	}
	// a local name carried by types of two packages: the text readers below cannot tell them apart
	idsByLocal := map[string]map[string]bool{}
	for _, n := range o.Nameds {
		if idsByLocal[n.Local] == nil {
			idsByLocal[n.Local] = map[string]bool{}
		}
		idsByLocal[n.Local][n.PkgPath] = true
	}
	for _, n := range o.Nameds {
		generic := strings.Contains(n.ID, "[")
		if len(idsByLocal[n.Local]) > 1 {
			continue
		}
		switch n.Kind {
		case "KdUnion":
			if gu.Outcome == "ok" && n.PkgPath == o.RootPkg && strings.Contains(gu.Text, "type "+n.Local+"Wrapper struct") {
				for _, m := range n.Members {
					add(fmt.Sprintf("NKindVar %s %s %s", coqStr(m), coqStr(n.Local), coqStrList(constsByValue[m])))
				}
			}
		case "KdEnum":
			if ms, ok := dartEnums[strings.Title(n.Local)]; ok && da.Outcome == "ok" {
				for _, c := range n.Members {
					add(fmt.Sprintf("NDartEnum %s %s", coqStr(c), coqStrList(ms)))
				}
			}
		}
		if rd.Outcome == "ok" && n.PkgPath != o.RootPkg && !generic {
			// only when the type has a function at all (fields skipped for data generation are not visited)
			has := false
			for _, id := range randIDs {
				if strings.HasSuffix(id, "_"+n.Local) && !strings.HasPrefix(id, "Slice") && !strings.HasPrefix(id, "Map") && !strings.HasPrefix(id, "Ar") {
					has = true
				}
			}
			if has {
				add(fmt.Sprintf("NRandForeign %s %s %s", coqStr(n.PkgName), coqStr(n.Local), coqStrList(randIDs)))
			}
		}
		if sq.Outcome == "ok" && (n.Kind == "KdStruct" || n.Kind == "KdEnum" || n.Kind == "KdUnion") && !generic {
			// only when the type has a validator at all
			want := "_" + n.Local
			has := false
			for _, id := range sqlIDs {
				if strings.HasSuffix(id, want) {
					has = true
				}
			}
			if has {
				add(fmt.Sprintf("NSqlId %s %s %s", coqStr(n.PkgName), coqStr(n.Local), coqStrList(sqlIDs)))
			}
		}
	}
	return out
}

// classification of a crash for the known-findings file: stage + the kind of runtime error + the code site named in the message
func classifyCrash(stage, msg string) string {
	kind := "other"
	switch {
	case strings.Contains(msg, "slice bounds out of range"):
		kind = "slice-bounds"
	case strings.Contains(msg, "index out of range"):
		kind = "index"
	case strings.Contains(msg, "interface conversion"):
		kind = "type-assertion"
	case strings.Contains(msg, "nil pointer dereference"):
		kind = "nil-deref"
	case strings.Contains(msg, "stack overflow"):
		kind = "stack-overflow"
	case strings.Contains(msg, "timeout"):
		kind = "timeout"
	}
	return stage + ":" + kind
}
