package main

import (
	"encoding/json"
	"fmt"
	"sort"
	"strings"

	"github.com/benoitkugler/gomacro/generator"
)

func init() { commands["C19"] = runC19 }

type c19decl struct {
	ID, Content string
	Prio        bool
}

func c19coq(l []c19decl) string {
	items := make([]string, len(l))
	for i, d := range l {
		items[i] = fmt.Sprintf("mkDecl %s %s %s", coqStr(d.ID), coqStr(d.Content), coqBool(d.Prio))
	}
	return coqList(items)
}

func c19run(l []c19decl) string {
	decls := make([]generator.Declaration, len(l))
	for i, d := range l {
		decls[i] = generator.Declaration{ID: d.ID, Content: d.Content, Priority: d.Prio}
	}
	return generator.WriteDeclarations(decls)
}

// independent reference (third opinion, and the failing-input oracle): the spec of the property
// written directly: each distinct ID once, priority IDs first, each group increasing.
// Returns ok=false when the list is inconsistent in a way that makes the result ambiguous.
func c19ref(l []c19decl) (string, bool) {
	type info struct {
		prio     bool
		contents map[string]bool // contents of the winning class
	}
	byID := map[string]*info{}
	for _, d := range l {
		in := byID[d.ID]
		if in == nil {
			in = &info{contents: map[string]bool{}}
			byID[d.ID] = in
		}
		if d.Prio && !in.prio {
			in.prio = true
			in.contents = map[string]bool{}
		}
		if d.Prio == in.prio {
			in.contents[d.Content] = true
		}
	}
	var pr, np []string
	for id, in := range byID {
		if len(in.contents) != 1 {
			return "", false
		}
		if in.prio {
			pr = append(pr, id)
		} else {
			np = append(np, id)
		}
	}
	sort.Strings(pr)
	sort.Strings(np)
	var sb strings.Builder
	for _, id := range append(pr, np...) {
		for c := range byID[id].contents {
			sb.WriteString(c)
		}
		sb.WriteByte('\n')
	}
	return sb.String(), true
}

func runC19(e *env) {
	e.m.Rule = "all declaration lists up to length L over the alphabet IDs{a,b,ab} x contents{x,y} x priority{t,f} (closed under permutation), " +
		"then seeded random lists (length<=60, colliding IDs, shuffles of the same list); non-trivial = at least two declarations sharing an ID or mixing priorities; distinct = distinct (list) inputs; " +
		"then the declaration lists the real generators (TypeScript, SQL, gounions, randdata, sqlcrud, each Dart file) hand to WriteDeclarations on corpus modules and the repository's fixtures: " +
		"the premise 'equal IDs carry equal content' is evaluated on each (Coq: consistentb) and the assembled text is compared with the model"
	ids := []string{"a", "b", "ab"}
	contents := []string{"x", "y"}
	var alphabet []c19decl
	for _, id := range ids {
		for _, c := range contents {
			for _, p := range []bool{true, false} {
				alphabet = append(alphabet, c19decl{id, c, p})
			}
		}
	}
	maxLen := 3
	if e.thorough() {
		maxLen = 4
	}
	var all [][]c19decl
	var rec func(cur []c19decl)
	rec = func(cur []c19decl) {
		all = append(all, append([]c19decl(nil), cur...))
		if len(cur) == maxLen {
			return
		}
		for _, a := range alphabet {
			rec(append(cur, a))
		}
	}
	rec(nil)
	e.m.count(fmt.Sprintf("enumerated_len<=%d", maxLen))
	e.m.Distribution[fmt.Sprintf("enumerated_len<=%d", maxLen)] = len(all)

	// random longer lists: content is a function of (ID, class) most of the time (consistent)
	nRandom := 150
	if e.thorough() {
		nRandom = 3000
	}
	idPool := []string{"a", "b", "ab", "a_", "zz_x", "aa_header", "__int", "B", "", "a b", "é", "ab\n"}
	for i := 0; i < nRandom; i++ {
		n := 1 + e.r.intn(60)
		k := 1 + e.r.intn(len(idPool))
		inconsistent := e.r.chance(1, 10) && n <= 8
		l := make([]c19decl, n)
		for j := range l {
			id := idPool[e.r.intn(k)]
			c := "c<" + id + ">"
			if e.r.chance(1, 4) {
				c += "\nline2"
			}
			l[j] = c19decl{ID: id, Prio: e.r.chance(1, 3)}
			if inconsistent && e.r.bool() {
				l[j].Content = pick(e.r, contents)
			} else {
				l[j].Content = "c<" + id + ">"
				_ = c
			}
		}
		all = append(all, l)
		e.m.count("random")
		// and shuffles of it
		for s := 0; s < 2; s++ {
			l2 := append([]c19decl(nil), l...)
			shuffle(e.r, l2)
			all = append(all, l2)
			e.m.count("random_shuffle")
		}
	}

	seen := map[string]bool{}
	const shard = 400
	var coqCases []string
	var inputs []interface{}
	fileNo := 0
	flush := func() {
		if len(coqCases) == 0 {
			return
		}
		e.writeCases(fmt.Sprintf("cases_C19_%d", fileNo),
			"From Coq Require Import List String.\nFrom GM Require Import Base.Hex Model.WriteDecls Corr.Check_C19.\nImport ListNotations.\nLocal Open Scope string_scope.\n",
			coqCases, inputs)
		fileNo++
		coqCases, inputs = nil, nil
	}
	for _, l := range all {
		out := c19run(append([]c19decl(nil), l...))
		e.m.Evaluations++
		key := c19coq(l)
		if !seen[key] {
			seen[key] = true
			idset := map[string]bool{}
			prios := map[bool]bool{}
			for _, d := range l {
				idset[d.ID] = true
				prios[d.Prio] = true
			}
			if len(idset) < len(l) || len(prios) == 2 {
				e.m.Nontrivial++
			}
		}
		e.m.OracleRuns++
		if ref, ok := c19ref(l); ok {
			e.m.count("consistent")
			if ref != out {
				e.m.fail(oracleFailure{What: "WriteDeclarations output differs from the specified merge", Input: l, Expect: ref, Got: out})
			}
		} else {
			e.m.count("inconsistent")
		}
		if len(l) >= 2 {
			e.m.sample(map[string]interface{}{"decls": l, "output": out})
		}
		coqCases = append(coqCases, fmt.Sprintf("(%s, %s)", c19coq(l), coqStr(out)))
		inputs = append(inputs, map[string]interface{}{"decls": l, "output": out})
		if len(coqCases) == shard {
			flush()
		}
	}
	flush()
	c19Generators(e)
}

// corpusDecls: inputs aimed at the premise "equal IDs carry equal content" of the generators' own lists.
func corpusDecls() []*modSpec {
	mk := func(name, src string, extra ...modFile) *modSpec {
		return &modSpec{Name: name, ModPath: "example.com/org/models", Target: "models.go",
			Files: append([]modFile{{"models.go", src}}, extra...)}
	}
	return []*modSpec{
		mk("decls-tables-with-foreign-keys", "package models\n\nimport \"database/sql\"\n\ntype IdTeacher int64\ntype IdCourse int64\n\ntype Course struct {\n\tId IdCourse\n\tIdTeacher IdTeacher\n\tAssistant sql.NullInt64 `gomacro-sql-foreign:\"Teacher\"`\n\tTitle string\n}\n\ntype Teacher struct {\n\tId IdTeacher\n\tName string\n}\n\ntype Plain struct {\n\tId int64\n\tLabel string\n}\n\ntype Ref struct {\n\tIdPlain int64 `gomacro-sql-foreign:\"Plain\"`\n\tIdCourse IdCourse\n}\n"),
		mk("decls-arrays-sharing-an-alias", "package models\n\ntype Small struct{ P [2]int }\ntype Wide struct{ P [2]int64 }\ntype F struct {\n\tA [3]float32\n\tB [3]float64\n\tC [2]uint8\n\tD [2]int\n}\n"),
		mk("decls-arrays-sharing-an-alias-reversed", "package models\n\ntype Wide struct{ P [2]int64 }\ntype Small struct{ P [2]int }\n"),
		mk("decls-shared-anonymous-containers", "package models\n\ntype ID int64\ntype E int\n\nconst (\n\tE0 E = iota\n\tE1\n)\n\ntype A struct {\n\tL []int\n\tM map[string]ID\n\tN [][]E\n}\ntype B struct {\n\tL []int\n\tM map[string]ID\n\tN [][]E\n\tO map[ID][]int\n}\ntype C struct {\n\tA A\n\tB []B\n\tO map[ID][]int\n}\n"),
		mk("decls-union-members-shared", "package models\n\ntype U1 interface{ is1() }\ntype U2 interface{ is2() }\ntype A struct{ X []int }\ntype B struct{ Y [2]int }\n\nfunc (A) is1() {}\nfunc (A) is2() {}\nfunc (B) is1() {}\nfunc (B) is2() {}\n\ntype S struct {\n\tV1 U1\n\tV2 U2\n\tL []U1\n\tM map[string]U2\n}\n"),
	}
}

// c19Generators: the lists the real generators hand to WriteDeclarations satisfy the premise of the
// order-independence theorem (equal IDs carry equal content), and are assembled as the model says.
func c19Generators(e *env) {
	specs := append(corpusDecls(), corpusGraph()...)
	specs = append(specs, repoFixtures("repo-testsource-defs", "repo-testsource-other", "repo-sql-models")...)
	obs := observeAll(specs, "decls", 14)
	var coqCases []string
	var inputs []interface{}
	fileNo := 0
	flush := func() {
		if len(coqCases) == 0 {
			return
		}
		e.writeCases2(fmt.Sprintf("cases_C19g_%d", fileNo),
			"From Coq Require Import List String.\nFrom GM Require Import Base.Hex Model.WriteDecls Corr.Check_C19.\nImport ListNotations.\nLocal Open Scope string_scope.\n",
			"mismatches", "inconsistent_lists", coqCases, inputs)
		fileNo++
		coqCases, inputs = nil, nil
	}
	for i, o := range obs {
		if o.LoadErr != "" || o.Outcome != "ok" || o.Gen["decls"].Outcome != "ok" {
			e.m.count("generator_lists_module_skipped")
			continue
		}
		var lists map[string][]c19decl
		if err := json.Unmarshal([]byte(o.Gen["decls"].Text), &lists); err != nil {
			e.m.fail(oracleFailure{What: "cannot read the declaration lists: " + err.Error(), Input: specs[i], NoInput: true})
			continue
		}
		var names []string
		for k := range lists {
			names = append(names, k)
		}
		sort.Strings(names)
		for _, g := range names {
			l := lists[g]
			if len(l) == 0 {
				continue
			}
			e.m.Evaluations++
			e.m.OracleRuns++
			e.m.count("generator_list")
			byID := map[string]string{}
			shared := false
			for _, d := range l {
				if c, ok := byID[d.ID]; ok {
					shared = true
					if c != d.Content {
						e.m.fail(oracleFailure{What: fmt.Sprintf("generator %s emits the declaration ID %q with two different contents: the assembled text depends on the traversal order", g, d.ID),
							Input: map[string]interface{}{"module": specs[i], "generator": g, "id": d.ID}, Expect: c, Got: d.Content})
						break
					}
				}
				byID[d.ID] = d.Content
			}
			if shared {
				e.m.Nontrivial++
				e.m.count("generator_list_with_repeated_id")
			}
			out := c19run(append([]c19decl(nil), l...))
			coqCases = append(coqCases, fmt.Sprintf("(%s, %s)", c19coq(l), coqStr(out)))
			inputs = append(inputs, map[string]interface{}{"module": specs[i].Name, "generator": g, "declarations": len(l)})
			if len(coqCases) == 6 {
				flush()
			}
		}
	}
	flush()
}
