package main

import (
	"fmt"
	"sort"
	"strings"

	"github.com/benoitkugler/gomacro/generator"
)

func init() { commands["C19"] = runC19 }

type c19decl struct {
	ID, Content string
	Prio        bool
}

func c19coq(l []c19decl) string {
	items := make([]string, len(l))
	for i, d := range l {
		items[i] = fmt.Sprintf("mkDecl %s %s %s", coqStr(d.ID), coqStr(d.Content), coqBool(d.Prio))
	}
	return coqList(items)
}

func c19run(l []c19decl) string {
	decls := make([]generator.Declaration, len(l))
	for i, d := range l {
		decls[i] = generator.Declaration{ID: d.ID, Content: d.Content, Priority: d.Prio}
	}
	return generator.WriteDeclarations(decls)
}

// independent reference (third opinion, and the failing-input oracle): the spec of the property
// written directly: each distinct ID once, priority IDs first, each group increasing.
// Returns ok=false when the list is inconsistent in a way that makes the result ambiguous.
func c19ref(l []c19decl) (string, bool) {
	type info struct {
		prio     bool
		contents map[string]bool // contents of the winning class
	}
	byID := map[string]*info{}
	for _, d := range l {
		in := byID[d.ID]
		if in == nil {
			in = &info{contents: map[string]bool{}}
			byID[d.ID] = in
		}
		if d.Prio && !in.prio {
			in.prio = true
			in.contents = map[string]bool{}
		}
		if d.Prio == in.prio {
			in.contents[d.Content] = true
		}
	}
	var pr, np []string
	for id, in := range byID {
		if len(in.contents) != 1 {
			return "", false
		}
		if in.prio {
			pr = append(pr, id)
		} else {
			np = append(np, id)
		}
	}
	sort.Strings(pr)
	sort.Strings(np)
	var sb strings.Builder
	for _, id := range append(pr, np...) {
		for c := range byID[id].contents {
			sb.WriteString(c)
		}
		sb.WriteByte('\n')
	}
	return sb.String(), true
}

func runC19(e *env) {
	e.m.Rule = "all declaration lists up to length L over the alphabet IDs{a,b,ab} x contents{x,y} x priority{t,f} (closed under permutation), " +
		"then seeded random lists (length<=60, colliding IDs, shuffles of the same list); non-trivial = at least two declarations sharing an ID or mixing priorities; distinct = distinct (list) inputs"
	ids := []string{"a", "b", "ab"}
	contents := []string{"x", "y"}
	var alphabet []c19decl
	for _, id := range ids {
		for _, c := range contents {
			for _, p := range []bool{true, false} {
				alphabet = append(alphabet, c19decl{id, c, p})
			}
		}
	}
	maxLen := 3
	if e.thorough() {
		maxLen = 4
	}
	var all [][]c19decl
	var rec func(cur []c19decl)
	rec = func(cur []c19decl) {
		all = append(all, append([]c19decl(nil), cur...))
		if len(cur) == maxLen {
			return
		}
		for _, a := range alphabet {
			rec(append(cur, a))
		}
	}
	rec(nil)
	e.m.count(fmt.Sprintf("enumerated_len<=%d", maxLen))
	e.m.Distribution[fmt.Sprintf("enumerated_len<=%d", maxLen)] = len(all)

	// random longer lists: content is a function of (ID, class) most of the time (consistent)
	nRandom := 150
	if e.thorough() {
		nRandom = 3000
	}
	idPool := []string{"a", "b", "ab", "a_", "zz_x", "aa_header", "__int", "B", "", "a b", "é", "ab\n"}
	for i := 0; i < nRandom; i++ {
		n := 1 + e.r.intn(60)
		k := 1 + e.r.intn(len(idPool))
		inconsistent := e.r.chance(1, 10) && n <= 8
		l := make([]c19decl, n)
		for j := range l {
			id := idPool[e.r.intn(k)]
			c := "c<" + id + ">"
			if e.r.chance(1, 4) {
				c += "\nline2"
			}
			l[j] = c19decl{ID: id, Prio: e.r.chance(1, 3)}
			if inconsistent && e.r.bool() {
				l[j].Content = pick(e.r, contents)
			} else {
				l[j].Content = "c<" + id + ">"
				_ = c
			}
		}
		all = append(all, l)
		e.m.count("random")
		// and shuffles of it
		for s := 0; s < 2; s++ {
			l2 := append([]c19decl(nil), l...)
			shuffle(e.r, l2)
			all = append(all, l2)
			e.m.count("random_shuffle")
		}
	}

	seen := map[string]bool{}
	const shard = 400
	var coqCases []string
	var inputs []interface{}
	fileNo := 0
	flush := func() {
		if len(coqCases) == 0 {
			return
		}
		e.writeCases(fmt.Sprintf("cases_C19_%d", fileNo),
			"From Coq Require Import List String.\nFrom GM Require Import Base.Hex Model.WriteDecls Corr.Check_C19.\nImport ListNotations.\nLocal Open Scope string_scope.\n",
			coqCases, inputs)
		fileNo++
		coqCases, inputs = nil, nil
	}
	for _, l := range all {
		out := c19run(append([]c19decl(nil), l...))
		e.m.Evaluations++
		key := c19coq(l)
		if !seen[key] {
			seen[key] = true
			idset := map[string]bool{}
			prios := map[bool]bool{}
			for _, d := range l {
				idset[d.ID] = true
				prios[d.Prio] = true
			}
			if len(idset) < len(l) || len(prios) == 2 {
				e.m.Nontrivial++
			}
		}
		e.m.OracleRuns++
		if ref, ok := c19ref(l); ok {
			e.m.count("consistent")
			if ref != out {
				e.m.fail(oracleFailure{What: "WriteDeclarations output differs from the specified merge", Input: l, Expect: ref, Got: out})
			}
		} else {
			e.m.count("inconsistent")
		}
		if len(l) >= 2 {
			e.m.sample(map[string]interface{}{"decls": l, "output": out})
		}
		coqCases = append(coqCases, fmt.Sprintf("(%s, %s)", c19coq(l), coqStr(out)))
		inputs = append(inputs, map[string]interface{}{"decls": l, "output": out})
		if len(coqCases) == shard {
			flush()
		}
	}
	flush()
}
