package main

import (
	"encoding/hex"
	"fmt"
	"strings"
)

// coqStr renders a Go string (bytes) as a Coq term of type string.
// Printable ASCII (plus \n and \t) is written as a literal; anything else goes through
// the Coq-side decoder [hex].
func coqStr(s string) string {
	plain := true
	for i := 0; i < len(s); i++ {
		c := s[i]
		if !((c >= 0x20 && c <= 0x7e) || c == '\n' || c == '\t') {
			plain = false
			break
		}
	}
	if plain {
		return `"` + strings.ReplaceAll(s, `"`, `""`) + `"`
	}
	return `(hex "` + hex.EncodeToString([]byte(s)) + `")`
}

func coqBool(b bool) string {
	if b {
		return "true"
	}
	return "false"
}

func coqList(items []string) string {
	return "[" + strings.Join(items, "; ") + "]"
}

func coqListNL(items []string) string {
	return "[\n  " + strings.Join(items, ";\n  ") + "\n]"
}

func coqZ(n int64) string { return fmt.Sprintf("(%d)%%Z", n) }

func coqOpt(s string, ok bool) string {
	if ok {
		return "(Some " + s + ")"
	}
	return "None"
}

func coqStrList(ss []string) string {
	items := make([]string, len(ss))
	for i, s := range ss {
		items[i] = coqStr(s)
	}
	return coqList(items)
}
