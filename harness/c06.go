package main

import (
	"encoding/json"
	"fmt"
	"regexp"
	"sort"
	"strconv"
	"strings"
)

func init() { commands["C06"] = runC06 }

var (
	reDartFile      = regexp.MustCompile(`(?s)//// FILE (\S+)\n(.*?)(?:\n//// FILE |\z)`)
	reDartImport    = regexp.MustCompile(`import '(.*?)';`)
	reDartClass     = regexp.MustCompile(`(?s)(?:abstract )?class (\w+)\s*(?:implements ([\w, ]+?))?\s*\{`)
	reDartCtor      = regexp.MustCompile(`const (\w+)\((.*?)\);`)
	reDart6FromKey  = regexp.MustCompile(`json\['((?:[^'\\]|\\.)*)'\]`)
	reDart6ToKey    = regexp.MustCompile(`"((?:[^"\\]|\\.)*)"\s*:\s*(?:\w+ToJson\()?\s*item\.(\w+)`)
	reDartEnumDecl  = regexp.MustCompile(`(?s)enum\s+(\w+) \{\s*(.*?)\s*\}`)
	reDartTypedef   = regexp.MustCompile(`typedef (\w+) = (.*?);`)
	reDartFunc      = regexp.MustCompile(`(?m)^\s*(?:[\w<>,? ]+?) (\w+(?:FromJson|ToJson|Label))\(`)
	reDartExt       = regexp.MustCompile(`extension (\w+) on (\w+)`)
	reDartUseHelper = regexp.MustCompile(`\b(\w+(?:FromJson|ToJson))\b`)
	reDartUnionFrom = regexp.MustCompile(`case "(\w+)":\s*return (\w+)FromJson\(data\);`)
	reDartUnionTo   = regexp.MustCompile(`if \(item is (\w+)\) \{\s*return \{'Kind': "(\w+)", 'Data': (\w+)ToJson\(item\)\};`)
	reDartValues    = regexp.MustCompile(`(?s)static const _values = \[\s*(.*?)\s*\];`)
	reDartField     = regexp.MustCompile(`(?m)^\s*final ([\w<>, ?]+) (\w+);\s*$`)
	reDartTypeName  = regexp.MustCompile(`[A-Z]\w*`)
)

type dartFile struct {
	Name    string
	Imports []string
	Defs    []string // every top-level name defined (with multiplicity)
	Uses    []string // helper functions and type names referenced
}

type dartClass struct {
	Name       string
	Implements []string
	CtorArgs   []string
	File       string
	FromKeys   []string    // the keys fromJson reads, in order
	ToKeys     [][2]string // (key written by toJson, field of the item it writes)
	HasJSON    bool        // the struct routines were found
}

type dartUnion struct {
	Name     string
	FromTags []string
	ToTags   [][2]string // (class tested, Kind written)
	File     string
}

type dartEnum struct {
	Name    string
	Members []string
	Values  []string // nil when the index is the value
	Iota    bool
	File    string
}

type dartIR struct {
	Files   []dartFile
	Classes []dartClass
	Unions  []dartUnion
	Enums   []dartEnum
}

var dartBuiltins = map[string]bool{"String": true, "List": true, "Map": true, "DateTime": true, "MapEntry": true, "JSON": true}

func splitDartFiles(text string) map[string]string {
	out := map[string]string{}
	parts := strings.Split(text, "//// FILE ")
	for _, p := range parts[1:] {
		i := strings.Index(p, "\n")
		out[p[:i]] = p[i+1:]
	}
	return out
}

func readDart(text string) *dartIR {
	ir := &dartIR{}
	files := splitDartFiles(text)
	var names []string
	for n := range files {
		names = append(names, n)
	}
	sort.Strings(names)
	for _, name := range names {
		body := files[name]
		f := dartFile{Name: name}
		for _, m := range reDartImport.FindAllStringSubmatch(body, -1) {
			f.Imports = append(f.Imports, m[1])
		}
		uses := map[string]bool{}
		for _, m := range reDartClass.FindAllStringSubmatch(body, -1) {
			f.Defs = append(f.Defs, m[1])
			c := dartClass{Name: m[1], File: name}
			if m[2] != "" {
				for _, i := range strings.Split(m[2], ",") {
					c.Implements = append(c.Implements, strings.TrimSpace(i))
					uses[strings.TrimSpace(i)] = true
				}
			}
			ir.Classes = append(ir.Classes, c)
		}
		for _, m := range reDartCtor.FindAllStringSubmatch(body, -1) {
			for i := range ir.Classes {
				if ir.Classes[i].Name == m[1] && ir.Classes[i].File == name {
					args := []string{}
					for _, a := range strings.Split(m[2], ",") {
						if a = strings.TrimSpace(a); a != "" {
							args = append(args, strings.TrimPrefix(a, "this."))
						}
					}
					ir.Classes[i].CtorArgs = args
				}
			}
		}
		for i := range ir.Classes {
			c := &ir.Classes[i]
			if c.File != name || c.CtorArgs == nil {
				continue // the abstract class of an union has no constructor and its own dispatch routines
			}
			// <Name> <id>FromJson(dynamic json_) { ... return <Name>( ... ); }   /   Map<String, dynamic> <id>ToJson(<Name> item) { return { ... }; }
			if m := regexp.MustCompile(`(?s)\n\s*` + regexp.QuoteMeta(c.Name) + ` \w+FromJson\(dynamic json_\) \{(.*?)\n\s*\}\n`).FindStringSubmatch(body); m != nil {
				c.HasJSON = true
				c.FromKeys = []string{}
				for _, k := range reDart6FromKey.FindAllStringSubmatch(m[1], -1) {
					c.FromKeys = append(c.FromKeys, k[1])
				}
			}
			if m := regexp.MustCompile(`(?s)Map<String, dynamic> \w+ToJson\(` + regexp.QuoteMeta(c.Name) + ` item\) \{\s*return \{(.*?)\};`).FindStringSubmatch(body); m != nil {
				c.ToKeys = [][2]string{}
				for _, k := range reDart6ToKey.FindAllStringSubmatch(m[1], -1) {
					key, err := strconv.Unquote(`"` + k[1] + `"`)
					if err != nil {
						key = k[1]
					}
					c.ToKeys = append(c.ToKeys, [2]string{key, k[2]})
				}
			}
		}
		for _, m := range reDartEnumDecl.FindAllStringSubmatch(body, -1) {
			f.Defs = append(f.Defs, m[1])
			en := dartEnum{Name: m[1], File: name}
			for _, x := range strings.Split(m[2], ",") {
				if x = strings.TrimSpace(x); x != "" {
					en.Members = append(en.Members, x)
				}
			}
			// the extension following the enum
			i := strings.Index(body, "extension _"+m[1]+"Ext on "+m[1])
			if i >= 0 {
				ext := body[i:]
				if j := strings.Index(ext, "\n\t}\n"); j > 0 {
					ext = ext[:j]
				}
				if v := reDartValues.FindStringSubmatch(ext); v != nil {
					en.Values = []string{}
					for _, x := range strings.Split(v[1], ", ") {
						if x = strings.TrimSpace(x); x != "" {
							en.Values = append(en.Values, x)
						}
					}
				} else if strings.Contains(ext, "return index;") {
					en.Iota = true
				}
			}
			ir.Enums = append(ir.Enums, en)
		}
		for _, m := range reDartTypedef.FindAllStringSubmatch(body, -1) {
			f.Defs = append(f.Defs, m[1])
			for _, t := range reDartTypeName.FindAllString(m[2], -1) {
				uses[t] = true
			}
		}
		for _, m := range reDartExt.FindAllStringSubmatch(body, -1) {
			f.Defs = append(f.Defs, m[1])
		}
		for _, m := range reDartFunc.FindAllStringSubmatch(body, -1) {
			if strings.Contains(m[0], "return ") || strings.Contains(m[0], "=>") {
				continue // a call, not a definition
			}
			f.Defs = append(f.Defs, m[1])
		}
		for _, m := range reDartUseHelper.FindAllStringSubmatch(body, -1) {
			uses[m[1]] = true
		}
		for _, m := range reDartField.FindAllStringSubmatch(body, -1) {
			for _, t := range reDartTypeName.FindAllString(m[1], -1) {
				uses[t] = true
			}
		}
		// unions: the function pair <u>FromJson / <u>ToJson with Kind dispatch
		for _, seg := range strings.Split(body, "abstract class ")[1:] {
			uname := seg[:strings.IndexAny(seg, " {")]
			u := dartUnion{Name: uname, File: name}
			end := strings.Index(seg, "throw (\"unexpected type\");\n\t\t}\t\n\t}")
			if end < 0 {
				end = len(seg)
			}
			part := seg[:end]
			for _, m := range reDartUnionFrom.FindAllStringSubmatch(part, -1) {
				u.FromTags = append(u.FromTags, m[1])
			}
			for _, m := range reDartUnionTo.FindAllStringSubmatch(part, -1) {
				u.ToTags = append(u.ToTags, [2]string{m[1], m[2]})
				uses[m[1]] = true
			}
			ir.Unions = append(ir.Unions, u)
		}
		for u := range uses {
			if !dartBuiltins[u] {
				f.Uses = append(f.Uses, u)
			}
		}
		sort.Strings(f.Uses)
		ir.Files = append(ir.Files, f)
	}
	return ir
}

func runC06(e *env) {
	e.m.Rule = "corpus + seeded synthesised source sets (one analysed file; types spread over the root package, a sub-package and the standard library; GOPATH-style and plain roots): the generated Dart files are parsed into imports, defined names, used names, classes (implements, constructor arguments), " +
		"union dispatch tables and enum tables; one evaluation = one module: tables compared with the model, links resolved file by file; non-trivial = at least 2 generated files besides predefined.dart or at least one union"
	e.m.Extra = map[string]interface{}{"mismatch_means": "model",
		"assumptions": []string{"generated Dart is never executed nor analysed by a Dart SDK (none available): DartSem is the reading of the emitted routines written in Coq",
			"the closure theorem C06_traversal_output_is_linked is about Model/DartGen.v; it is tied to generator/dart by comparing, for every output file, the declaration identifiers in order and the import block with the lists the real generator hands to WriteDeclarations, and by requiring every name the real text uses to be provided by a declaration the model refers to from that file (regex reader of the Dart text: trusted); the unions a class implements are outside the theorem"}}
	specs := append(corpusDart(), corpusUnions()...)
	specs = append(specs, repoFixtures("repo-testsource-defs", "repo-testsource-other")...)
	n := 12
	if e.thorough() {
		n = 200
	}
	for i := 0; i < n; i++ {
		prof := fullProfile()
		prof.TagsAll = false
		prof.Generics = false
		specs = append(specs, synthModule(e.r, prof, i))
	}
	obs := observeAll(specs, "dart,decls", 14)
	var cases []string
	var inputs []interface{}
	for i, o := range obs {
		spec := specs[i]
		if o.LoadErr != "" {
			e.m.count("rejected_by_type_checker")
			e.m.Extra["last_rejected"] = spec.Name + ": " + o.LoadErr
			continue
		}
		if o.Outcome != "ok" {
			e.m.count("analysis_" + o.Outcome)
			continue
		}
		g := o.Gen["dart"]
		e.m.count("dart_" + g.Outcome)
		if g.Outcome == "crash" {
			e.m.fail(oracleFailure{What: "the Dart generator dies with a runtime error: " + g.Msg, Input: spec})
		}
		if g.Outcome != "ok" {
			continue
		}
		e.m.Evaluations++
		ir := readDart(g.Text)
		if len(ir.Files) >= 3 || len(ir.Unions) > 0 {
			e.m.Nontrivial++
			e.m.sample(map[string]interface{}{"module": spec.Name, "files": ir.Files, "unions": ir.Unions, "enums": ir.Enums})
		}
		e.m.Distribution["dart_files"] += len(ir.Files)
		var files, classes, unions, enums []string
		for _, f := range ir.Files {
			files = append(files, fmt.Sprintf("{| df_name := %s; df_imports := %s; df_defs := %s; df_uses := %s |}", coqStr(f.Name), coqStrList(f.Imports), coqStrList(f.Defs), coqStrList(f.Uses)))
		}
		for _, c := range ir.Classes {
			var toItems []string
			for _, kv := range c.ToKeys {
				toItems = append(toItems, fmt.Sprintf("(%s, %s)", coqStr(kv[0]), coqStr(kv[1])))
			}
			classes = append(classes, fmt.Sprintf("{| dc_name := %s; dc_implements := %s; dc_ctor := %s; dc_file := %s; dc_has_json := %s; dc_from := %s; dc_to := %s |}",
				coqStr(c.Name), coqStrList(c.Implements), coqStrList(c.CtorArgs), coqStr(c.File), coqBool(c.HasJSON), coqStrList(c.FromKeys), coqList(toItems)))
		}
		for _, u := range ir.Unions {
			var to []string
			for _, t := range u.ToTags {
				to = append(to, fmt.Sprintf("(%s, %s)", coqStr(t[0]), coqStr(t[1])))
			}
			unions = append(unions, fmt.Sprintf("{| du_name := %s; du_from := %s; du_to := %s; du_file := %s |}", coqStr(u.Name), coqStrList(u.FromTags), coqList(to), coqStr(u.File)))
		}
		for _, en := range ir.Enums {
			vals := "None"
			if en.Values != nil {
				vals = "(Some " + coqStrList(en.Values) + ")"
			}
			enums = append(enums, fmt.Sprintf("{| de_name := %s; de_members := %s; de_values := %s; de_iota := %s; de_file := %s |}", coqStr(en.Name), coqStrList(en.Members), vals, coqBool(en.Iota), coqStr(en.File)))
		}
		cases = append(cases, fmt.Sprintf("{| c6_root := %s;\n c6_prog := %s;\n c6_enums := %s;\n c6_ana := %s;\n c6_dl := "+dartDeclLists(o)+";\n c6_files := %s;\n c6_classes := %s;\n c6_unions := %s;\n c6_denums := %s |}",
			coqStr(o.Gen["dart_root"].Text), o.Facts, o.Enums, o.Ana, coqListNL(files), coqListNL(classes), coqListNL(unions), coqListNL(enums)))
		inputs = append(inputs, map[string]interface{}{"module": spec, "files": ir.Files, "classes": ir.Classes, "unions": ir.Unions, "enums": ir.Enums, "class": firstNonEmpty(spec.Class, classifyDartLinks(ir, o))})
		if len(cases) == 4 {
			e.writeCases2(fmt.Sprintf("cases_C06_%d", len(e.m.CaseFiles)), anaHeader+"From GM Require Import Model.Fields Model.Dart Corr.Check_C06.\n", "mismatches", "prop_failures", cases, inputs)
			cases, inputs = nil, nil
		}
	}
	if len(cases) > 0 {
		e.writeCases2(fmt.Sprintf("cases_C06_%d", len(e.m.CaseFiles)), anaHeader+"From GM Require Import Model.Fields Model.Dart Corr.Check_C06.\n", "mismatches", "prop_failures", cases, inputs)
	}
}

func corpusDart() []*modSpec {
	mk := func(name, class, src string, extra ...modFile) *modSpec {
		return &modSpec{Name: name, Class: class, ModPath: "example.com/org/models", Target: "models.go", GoSrc: true,
			Files: append([]modFile{{"models.go", src}}, extra...)}
	}
	return []*modSpec{
		mk("dart-generic-named-containers", "", "package models\n\ntype S struct {\n\tA Seq[int]\n\tB Seq[string]\n\tC Dict[bool]\n\tD Dict[IdX]\n\tE Pair[int]\n\tF []Seq[int]\n}\n", modFile{"other.go", "package models\n\ntype IdX int64\n\ntype Seq[T any] []T\n\ntype Dict[V any] map[string]V\n\ntype Pair[T any] [2]T\n"}),
		mk("dart-packages", "", "package models\n\nimport (\n\t\"time\"\n\n\t\"example.com/org/models/sub\"\n)\n\ntype E int\n\nconst (\n\tE_first E = iota // the first\n\tE_second\n)\n\ntype S struct {\n\tA sub.T\n\tB []sub.T\n\tD time.Duration\n\tT time.Time\n\tE E\n\tL []int\n}\n", modFile{"sub/sub.go", "package sub\n\ntype T struct {\n\tX []int\n\tK Kind\n}\n\ntype Kind string\n\nconst (\n\tKa Kind = \"a\"\n\tKb Kind = \"b\"\n)\n"}),
		mk("dart-shared-anonymous-type", "dart-anonymous-helper-in-two-files", "package models\n\nimport \"example.com/org/models/sub\"\n\ntype S struct {\n\tL []int\n\tT sub.T\n}\n", modFile{"sub/sub.go", "package sub\n\ntype T struct{ X []int }\n"}),
		mk("dart-hidden-fields", "", "package models\n\ntype Account struct {\n\tID int\n\tLogin string `json:\"login\"`\n\tPassword string `json:\"-\"`\n\tAge int `json:\"age,omitempty\"`\n\tCache []int `gomacro:\"ignore\"`\n\tNotes map[string]string `json:\"notes\" gomacro:\"ignore\"`\n\tinternal int\n}\n\ntype Holder struct {\n\tA Account\n\tL []Account `json:\"-\"`\n}\n"),
		mk("dart-key-not-an-identifier", "dart-json-key-not-a-dart-identifier", "package models\n\ntype Item struct {\n\tFullName string `json:\"full-name\"`\n\tDash string `json:\"-,\"`\n\tOk int `json:\"ok\"`\n}\n"),
		mk("dart-type-used-from-two-other-files", "", "package models\n\nimport (\n\t\"example.com/org/models/a\"\n\t\"example.com/org/models/b\"\n)\n\ntype Order struct {\n\tTotal a.Money\n\tInv b.Invoice\n\tCur a.Currency\n}\n", modFile{"a/a.go", "package a\n\ntype Currency int\n\nconst (\n\tEUR Currency = iota\n\tUSD\n)\n\ntype Money struct {\n\tCents int\n\tCur Currency\n}\n"}, modFile{"b/b.go", "package b\n\nimport \"example.com/org/models/a\"\n\ntype Invoice struct {\n\tAmount a.Money\n\tLines []a.Money\n\tCur a.Currency\n\tRef string\n}\n"}),
		mk("dart-enum-values", "", "package models\n\ntype E int\n\nconst (\n\tA E = 1\n\tB E = 2\n\tc E = 3\n\tD E = 2\n)\n\ntype F string\n\nconst (\n\tFa F = \"a\"\n\tFb F = \"b\"\n)\n\ntype Level int\n\nconst (\n\tLow Level = iota\n\tmedium\n\tHigh\n)\n\ntype Kind uint8\n\nconst (\n\tK0 Kind = iota\n\tK1\n\tnbKinds\n)\n\ntype S struct {\n\tE E\n\tF F\n\tL Level\n\tK Kind\n}\n"),
		mk("dart-map-key-from-package", "", "package models\n\nimport \"example.com/org/models/sub\"\n\ntype S struct {\n\tByColor map[sub.Color]string\n\tById map[sub.ID][]int\n}\n", modFile{"sub/sub.go", "package sub\n\ntype Color int\n\nconst (\n\tRed Color = iota\n\tGreen\n)\n\ntype ID int64\n"}),
		mk("dart-union-member-names", "", "package models\n\ntype Shape interface{ isShape() }\n\ntype Circle struct{ R int }\ntype square struct{ Side int }\ntype hTTPShape struct{ U string }\ntype N int\n\nfunc (Circle) isShape() {}\nfunc (square) isShape() {}\nfunc (hTTPShape) isShape() {}\nfunc (N) isShape() {}\n\ntype Drawing struct {\n\tMain Shape\n\tAll []Shape\n}\n"),
		mk("dart-named-basic-from-package", "", "package models\n\nimport \"example.com/org/models/sub\"\n\ntype S struct {\n\tX sub.N\n\tT sub.T\n}\n", modFile{"sub/sub.go", "package sub\n\ntype N int\n\ntype T struct{ A bool }\n"}),
		mk("dart-embedded-struct-with-containers-in-two-packages", "", "package models\n\nimport (\n\t\"example.com/org/models/a\"\n\t\"example.com/org/models/b\"\n)\n\ntype S struct {\n\tA a.A\n\tB b.B\n}\n", modFile{"base/base.go", "package base\n\ntype Base struct {\n\tTags []string\n\tCounts map[string]int\n}\n"}, modFile{"a/a.go", "package a\n\nimport \"example.com/org/models/base\"\n\ntype A struct {\n\tbase.Base\n\tX int\n}\n"}, modFile{"b/b.go", "package b\n\nimport \"example.com/org/models/base\"\n\ntype B struct {\n\tbase.Base\n\tY bool\n}\n"}),
		mk("dart-union-hidden", "dart-implements-union-not-emitted", "package models\n\ntype A struct{ X int }\nfunc (A) isU() {}\n\ntype S struct {\n\tA A\n\thidden Holder\n}\n", modFile{"other.go", "package models\n\ntype U interface{ isU() }\n\ntype Holder struct{ V U }\n"}),
	}
}

// which kind of link problem a module shows (for the known-findings file): recomputed here from the parsed files
func classifyDartLinks(ir *dartIR, o *obsResult) string {
	// the finding "same class name in two packages" needs two defined types with one local name in two packages
	sameNameTwice := false
	seenLocal := map[string]string{}
	for _, n := range o.Nameds {
		if prev, ok := seenLocal[strings.ToLower(n.Local)]; ok && prev != n.PkgPath {
			sameNameTwice = true
		}
		seenLocal[strings.ToLower(n.Local)] = n.PkgPath
	}
	byName := map[string]dartFile{}
	for _, f := range ir.Files {
		byName[f.Name] = f
	}
	onlyAnon, any := true, false
	onlyDup, dupNamed := true, false
	undefinedUnion := false
	for _, f := range ir.Files {
		count := map[string]int{}
		for _, d := range f.Defs {
			count[d]++
		}
		for _, i := range f.Imports {
			for _, d := range byName[i].Defs {
				count[d]++
			}
		}
		for _, u := range f.Uses {
			if dartBuiltins[u] || u == "Override" || count[u] == 1 {
				continue
			}
			any = true
			anon := strings.HasPrefix(u, "list") || strings.HasPrefix(u, "dict")
			if !(anon && count[u] > 1) {
				onlyAnon = false
			}
			if count[u] > 1 {
				if !anon {
					dupNamed = true // a class, enum or helper of a named type defined in two visible files
				}
			} else {
				onlyDup = false
			}
			if count[u] == 0 {
				for _, c := range ir.Classes {
					for _, im := range c.Implements {
						if im == u {
							undefinedUnion = true
						}
					}
				}
			}
		}
	}
	switch {
	case !any:
		return ""
	case onlyAnon:
		return "dart-anonymous-helper-in-two-files"
	case onlyDup && dupNamed && sameNameTwice:
		return "dart-same-class-name-in-two-packages"
	case undefinedUnion:
		return "dart-implements-union-not-emitted"
	}
	return ""
}

func firstNonEmpty(a, b string) string {
	if a != "" {
		return a
	}
	return b
}

// dartDeclLists renders, per output file, the identifiers of the declarations the real Dart generator hands to
// WriteDeclarations (header and import block excluded) and the files named by its import block.
func dartDeclLists(o *obsResult) string {
	d := o.Gen["decls"]
	if d.Outcome != "ok" {
		return "None"
	}
	var lists map[string][]c19decl
	if err := json.Unmarshal([]byte(d.Text), &lists); err != nil {
		return "None"
	}
	var names []string
	for k := range lists {
		if strings.HasPrefix(k, "dart:") {
			names = append(names, k)
		}
	}
	if len(names) == 0 {
		return "None"
	}
	sort.Strings(names)
	var out []string
	for _, k := range names {
		var ids, imps []string
		for _, decl := range lists[k] {
			switch decl.ID {
			case "aa_header":
			case "aa_imports":
				for _, line := range strings.Split(decl.Content, "\n") {
					line = strings.TrimSpace(line)
					if strings.HasPrefix(line, "import '") && strings.HasSuffix(line, "';") {
						imps = append(imps, line[len("import '"):len(line)-2])
					}
				}
			default:
				ids = append(ids, decl.ID)
			}
		}
		out = append(out, fmt.Sprintf("(%s, (%s, %s))", coqStr(strings.TrimPrefix(k, "dart:")), coqStrList(ids), coqStrList(imps)))
	}
	return "(Some " + coqListNL(out) + ")"
}
