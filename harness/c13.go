package main

import (
	"encoding/json"
	"fmt"
	"go/types"
	"os"
	"os/exec"
	"strings"
	"sync"

	"github.com/benoitkugler/gomacro/analysis"
	"github.com/benoitkugler/gomacro/analysis/httpapi"
	"github.com/benoitkugler/gomacro/generator/typescript"
)

func init() {
	commands["C13"] = runC13
	commands["child-http"] = func(e *env) {
		res := observeHTTP(os.Getenv("GMV_TARGET"), os.Getenv("GMV_PREFIX"))
		b, _ := json.Marshal(res)
		os.Stdout.Write(b)
	}
}

// ---- what the synthesiser intends ----

type qparam struct{ Name, Type string }

type routeIntent struct {
	Verb, URL   string
	HandlerKind string // method-value | method-pointer | func | imported-func | literal
	Name        string // handler name ("" for literals: Anonymous<pos>)
	Stmts       []stmtIntent
}

// one statement of a handler body, in the abstract form the model reads
type stmtIntent struct {
	Form string // assign | var | return | other
	Call string // Bind | QueryParam | QueryParamBool | QueryParamInt | QueryParamInt64 | FormValue | FormFile | FormValueJSON | JSON | JSONPretty | Blob | nil | err
	Name string // string argument
	Type string // Go type involved (bound target, query result, JSON payload), as types.TypeString with full paths
}

const echoStub = `// Package echo is a substitute for the http framework echo package.
package echo

import "mime/multipart"

type Context interface {
	Bind(interface{}) error
	JSON(int, interface{}) error
	JSONPretty(int, interface{}, string) error
	QueryParam(string) string
	Blob(code int, contentType string, b []byte) error
	FormValue(name string) string
	FormFile(name string) (*multipart.FileHeader, error)
}

type Echo struct{}

type Route struct{}

func (Echo) GET(string, func(Context) error) *Route    { return nil }
func (Echo) POST(string, func(Context) error) *Route   { return nil }
func (Echo) PUT(string, func(Context) error) *Route    { return nil }
func (Echo) DELETE(string, func(Context) error) *Route { return nil }
func (Echo) PATCH(string, func(Context) error) *Route  { return nil }
`

type payloadTy struct{ src, str string }

// routesAvoidGetWithData: set by C14 so that the synthesised files do not exhibit its recorded finding
var routesAvoidGetWithData bool

func synthRoutes(r *rng, idx int, withVarForm bool) (*modSpec, []routeIntent) {
	mod := "example.com/org/api"
	payloads := []payloadTy{
		{"int", "int"}, {"string", "string"}, {"[]int64", "[]int64"}, {"map[string][]int", "map[string][]int"},
		{"Params", mod + ".Params"}, {"Result", mod + ".Result"}, {"[]Result", "[]" + mod + ".Result"}, {"IdItem", mod + ".IdItem"}, {"uint32", "uint32"},
	}
	var b strings.Builder
	// one module in three names the registering package like the imported package of handlers (resolution of a
	// handler's package must go by import path, not by package name)
	rootPkg := "main"
	if idx%3 == 1 {
		rootPkg = "inner"
	}
	fmt.Fprintf(&b, "package %s\n\nimport (\n\t\"fmt\"\n\n\t\"%s/echo\"\n\t\"%s/inner\"\n)\n\nvar _ = fmt.Sprint\n\n", rootPkg, mod, mod)
	b.WriteString("const pkgRoute = \"/pkg_const/\"\n\ntype IdItem int64\n\ntype Params struct {\n\tA int\n\tB string\n}\n\ntype Result struct {\n\tOK bool\n\tItems []IdItem\n}\n\ntype controller struct{}\n\ntype admin struct{}\n\n")
	b.WriteString("type Flag bool\n\ntype Token string\n\nfunc QueryParamBool[T ~bool](echo.Context, string) T { var z T; return z }\nfunc QueryParam[T ~string](echo.Context, string) T { return \"\" }\nfunc QueryParamInt[T ~int64](echo.Context, string) (T, error) { return 0, nil }\nfunc (controller) QueryParamInt64(echo.Context, string) int64 { return 0 }\nfunc (controller) QueryParamBool(echo.Context, string) bool { return false }\nfunc FormValueJSON(echo.Context, string, any) error { return nil }\n\n")
	var intents []routeIntent
	var twinB *routeIntent
	var reg strings.Builder
	reg.WriteString("func withGroup(e *echo.Echo, f func(*echo.Echo)) { f(e) }\n\nfunc routes(e *echo.Echo, ct *controller, cv controller, ext inner.Controller, ad admin) {\n\tconst localRoute = \"local_const\"\n\tvar registered []*echo.Route\n\t_ = registered\n")
	n := 3 + r.intn(8)
	verbs := []string{"GET", "POST", "PUT", "DELETE"}
	for i := 0; i < n; i++ {
		in := routeIntent{Verb: pick(r, verbs)}
		// path expression
		var pathExpr string
		switch r.intn(8) {
		case 6: // a raw string literal
			in.URL = fmt.Sprintf("/raw/%d/:name", i)
			pathExpr = "`" + in.URL + "`"
		case 7: // escape sequences in an interpreted literal
			in.URL = fmt.Sprintf("/api/caf\u00e9/m/%d/q", i)
			pathExpr = fmt.Sprintf("\"/api/caf\\u00e9/\\x6d/%d/\\x71\"", i)
		case 0:
			in.URL = fmt.Sprintf("/lit/%d", i)
			if i%2 == 1 { // shares its first letters with /lit/ without being below it
				in.URL = fmt.Sprintf("/lit%d", i)
			}
			pathExpr = fmt.Sprintf("%q", in.URL)
		case 1:
			in.URL = "local_const"
			pathExpr = "localRoute"
		case 2:
			in.URL = "/pkg_const/"
			pathExpr = "pkgRoute"
		case 3:
			in.URL = "/inner_const/"
			pathExpr = "inner.Url"
		case 4:
			in.URL = fmt.Sprintf("/inner_const/sub%d/local_const", i)
			pathExpr = fmt.Sprintf("inner.Url+\"sub%d/\"+localRoute", i)
		default:
			in.URL = fmt.Sprintf("/api/v1/item/:id/%d", i)
			pathExpr = fmt.Sprintf("\"/api/v1\"+\"/item/:id/%d\"", i)
		}
		// handler
		var handlerExpr string
		body, stmts := synthBody(r, payloads, withVarForm && r.chance(2, 3))
		in.Stmts = stmts
		switch k := r.intn(6); k {
		case 0, 1:
			in.HandlerKind, in.Name = "method-pointer", fmt.Sprintf("handle%d", i)
			handlerExpr = "ct." + in.Name
			fmt.Fprintf(&b, "func (ct controller) %s(c echo.Context) error {\n%s}\n\n", in.Name, body)
		case 2:
			in.HandlerKind, in.Name = "method-value", fmt.Sprintf("handleV%d", i)
			handlerExpr = "cv." + in.Name
			fmt.Fprintf(&b, "func (ct controller) %s(c echo.Context) error {\n%s}\n\n", in.Name, body)
		case 3:
			in.HandlerKind, in.Name = "func", fmt.Sprintf("topLevel%d", i)
			handlerExpr = in.Name
			fmt.Fprintf(&b, "func %s(c echo.Context) error {\n\tvar ct controller\n\t_ = ct\n%s}\n\n", in.Name, body)
		case 4:
			in.HandlerKind, in.Name = "imported-func", "TopLevel"
			handlerExpr = "inner.TopLevel"
			in.Stmts = []stmtIntent{{Form: "assign", Call: "QueryParam", Name: "inner1", Type: "string"}, {Form: "return", Call: "JSON", Type: "map[string][]int"}}
			if r.bool() {
				in.HandlerKind, in.Name = "imported-method", "HandleExt"
				handlerExpr = "ext.HandleExt"
				if routesAvoidGetWithData && (in.Verb == "GET" || in.Verb == "DELETE") {
					in.Verb = "POST"
				}
				in.Stmts = []stmtIntent{{Form: "assign", Call: "Bind", Type: "[]int64"}, {Form: "return", Call: "JSON", Type: "string"}}
			}
		default:
			in.HandlerKind, in.Name = "literal", ""
			handlerExpr = "func(c echo.Context) error {\n\tvar ct controller\n\t_ = ct\n" + body + "}"
		}
		if routesAvoidGetWithData && (in.Verb == "GET" || in.Verb == "DELETE") && in.HandlerKind != "imported-method" {
			// C14: a body or form data with GET/DELETE is a recorded finding, shown by a dedicated corpus file
			for _, st := range in.Stmts {
				if st.Call == "Bind" || st.Call == "FormValue" || st.Call == "FormFile" || st.Call == "FormValueJSON" {
					in.Verb = pick(r, []string{"POST", "PUT"})
					break
				}
			}
		}
		switch r.intn(6) {
		case 3: // the registration is an argument of another call
			fmt.Fprintf(&reg, "\tregistered = append(registered, e.%s(%s, %s))\n", in.Verb, pathExpr, handlerExpr)
		case 4: // inside a function literal called on the spot
			fmt.Fprintf(&reg, "\tfunc() {\n\t\te.%s(%s, %s)\n\t}()\n", in.Verb, pathExpr, handlerExpr)
		case 5: // inside a function literal handed to a helper
			fmt.Fprintf(&reg, "\twithGroup(e, func(g *echo.Echo) {\n\t\tg.%s(%s, %s)\n\t})\n", in.Verb, pathExpr, handlerExpr)
		default:
			fmt.Fprintf(&reg, "\te.%s(%s, %s)\n", in.Verb, pathExpr, handlerExpr)
		}
		intents = append(intents, in)
	}
	// handlers sharing one name: methods of two receiver types and a function (resolution must go by object, not by name)
	if r.chance(2, 3) {
		type shared struct {
			kind, expr, decl string
		}
		cands := []shared{
			{"method-pointer", "ct.Shared", "func (ct controller) Shared(c echo.Context) error {\n%s}\n\n"},
			{"method-value", "ad.Shared", "func (ad admin) Shared(c echo.Context) error {\n\tvar ct controller\n\t_ = ct\n%s}\n\n"},
			{"func", "Shared", "func Shared(c echo.Context) error {\n\tvar ct controller\n\t_ = ct\n%s}\n\n"},
		}
		shuffle(r, cands)
		var decls []string
		for i, c := range cands[:2+r.intn(2)] {
			body, stmts := synthBody(r, payloads, false)
			in := routeIntent{Verb: pick(r, verbs), URL: fmt.Sprintf("/shared/%d", i), HandlerKind: c.kind, Name: "Shared", Stmts: stmts}
			if routesAvoidGetWithData && (in.Verb == "GET" || in.Verb == "DELETE") {
				for _, st := range stmts {
					if st.Call == "Bind" || st.Call == "FormValue" || st.Call == "FormFile" || st.Call == "FormValueJSON" {
						in.Verb = pick(r, []string{"POST", "PUT"})
						break
					}
				}
			}
			decls = append(decls, fmt.Sprintf(c.decl, body))
			fmt.Fprintf(&reg, "\te.%s(%q, %s)\n", in.Verb, in.URL, c.expr)
			intents = append(intents, in)
		}
		shuffle(r, decls)
		for _, d := range decls {
			b.WriteString(d)
		}
	}
	// the same handler expression (ct.Twin) in two registering functions whose parameter ct has two different types:
	// a handler is identified by the object the expression resolves to, not by its text
	var reg2 string
	if r.chance(2, 3) {
		bodyA, stmtsA := synthBody(r, payloads, false)
		bodyB, stmtsB := synthBody(r, payloads, false)
		fix := func(in routeIntent) routeIntent {
			if routesAvoidGetWithData {
				for _, st := range in.Stmts {
					if st.Call == "Bind" || st.Call == "FormValue" || st.Call == "FormFile" || st.Call == "FormValueJSON" {
						in.Verb = "POST"
					}
				}
			}
			return in
		}
		inA := fix(routeIntent{Verb: "GET", URL: "/twin/a", HandlerKind: "method-pointer", Name: "Twin", Stmts: stmtsA})
		inB := fix(routeIntent{Verb: "GET", URL: "/twin/b", HandlerKind: "method-value", Name: "Twin", Stmts: stmtsB})
		fmt.Fprintf(&b, "func (ct controller) Twin(c echo.Context) error {\n%s}\n\nfunc (ad admin) Twin(c echo.Context) error {\n\tvar ct controller\n\t_ = ct\n%s}\n\n", bodyA, bodyB)
		fmt.Fprintf(&reg, "\te.%s(%q, ct.Twin)\n", inA.Verb, inA.URL)
		reg2 = fmt.Sprintf("func routesAdmin(e *echo.Echo, ct admin) {\n\te.%s(%q, ct.Twin)\n}\n\n", inB.Verb, inB.URL)
		intents = append(intents, inA)
		twinB = &inB
	}
	// things that are not registrations: a one-argument call and a non-verb method
	reg.WriteString("\te.PATCH(\"/not_a_known_verb\", topLevelNoop)\n\tfmt.Println(\"GET\", localRoute)\n}\n\nfunc topLevelNoop(echo.Context) error { return nil }\n")
	b.WriteString(reg.String())
	b.WriteString(reg2)
	if twinB != nil {
		intents = append(intents, *twinB)
	}
	innerSrc := "package inner\n\nimport \"" + mod + "/echo\"\n\nconst Url = \"/inner_const/\"\n\ntype Controller struct{}\n\nfunc (Controller) HandleExt(c echo.Context) error {\n\tvar in []int64\n\terr := c.Bind(&in)\n\t_ = err\n\tvar out string\n\treturn c.JSON(200, out)\n}\n\nfunc QueryParamInt[T ~int64](echo.Context, string) (T, error) { return 0, nil }\n\nfunc TopLevel(c echo.Context) error {\n\tv := c.QueryParam(\"inner1\")\n\t_ = v\n\tvar out map[string][]int\n\treturn c.JSON(200, out)\n}\n"
	m := &modSpec{Name: fmt.Sprintf("routes%d", idx), ModPath: mod, Target: "routes.go", GoSrc: r.bool(),
		Files: []modFile{{"routes.go", b.String()}, {"echo/echo.go", echoStub}, {"inner/inner.go", innerSrc}}}
	return m, intents
}

func synthBody(r *rng, payloads []payloadTy, varForm bool) (string, []stmtIntent) {
	var b strings.Builder
	var st []stmtIntent
	used := 0
	v := func() string { used++; return fmt.Sprintf("v%d", used) }
	if r.chance(1, 2) {
		p := pick(r, payloads)
		x := v()
		fmt.Fprintf(&b, "\tvar %s %s\n\tif err := c.Bind(&%s); err != nil {\n\t\treturn err\n\t}\n", x, p.src, x)
		st = append(st, stmtIntent{Form: "assign", Call: "Bind", Type: p.str})
	}
	nq := r.intn(4)
	for i := 0; i < nq; i++ {
		x := v()
		name := fmt.Sprintf("q-%d", i)
		switch r.intn(7) {
		case 5: // a named boolean through a generic helper
			fmt.Fprintf(&b, "\t%s := QueryParamBool[Flag](c, %q)\n\t_ = %s\n", x, name, x)
			st = append(st, stmtIntent{Form: "assign", Call: "QueryParamBool", Name: name, Type: "example.com/org/api.Flag"})
		case 6: // a named string through a generic helper
			fmt.Fprintf(&b, "\t%s := QueryParam[Token](c, %q)\n\t_ = %s\n", x, name, x)
			st = append(st, stmtIntent{Form: "assign", Call: "QueryParam", Name: name, Type: "example.com/org/api.Token"})
		case 0:
			if varForm {
				fmt.Fprintf(&b, "\tvar %s = c.QueryParam(%q)\n\t_ = %s\n", x, name, x)
				st = append(st, stmtIntent{Form: "var", Call: "QueryParam", Name: name, Type: "string"})
			} else {
				fmt.Fprintf(&b, "\t%s := c.QueryParam(%q)\n\t_ = %s\n", x, name, x)
				st = append(st, stmtIntent{Form: "assign", Call: "QueryParam", Name: name, Type: "string"})
			}
		case 1:
			fmt.Fprintf(&b, "\t%s := ct.QueryParamBool(c, %q)\n\t_ = %s\n", x, name, x)
			st = append(st, stmtIntent{Form: "assign", Call: "QueryParamBool", Name: name, Type: "bool"})
		case 2:
			fmt.Fprintf(&b, "\t%s := ct.QueryParamInt64(c, %q)\n\t_ = %s\n", x, name, x)
			st = append(st, stmtIntent{Form: "assign", Call: "QueryParamInt64", Name: name, Type: "int64"})
		case 3:
			if varForm { // a var declaration whose two names receive the results of one call
				fmt.Fprintf(&b, "\tvar %s, err%s = QueryParamInt[IdItem](c, %q)\n\t_, _ = %s, err%s\n", x, x, name, x, x)
			} else if r.bool() { // the same helper through a package selector
				fmt.Fprintf(&b, "\t%s, err%s := inner.QueryParamInt[IdItem](c, %q)\n\t_, _ = %s, err%s\n", x, x, name, x, x)
			} else {
				fmt.Fprintf(&b, "\t%s, err%s := QueryParamInt[IdItem](c, %q)\n\t_, _ = %s, err%s\n", x, x, name, x, x)
			}
			st = append(st, stmtIntent{Form: "assign", Call: "QueryParamInt", Name: name, Type: "example.com/org/api.IdItem"})
		default:
			y := v()
			fmt.Fprintf(&b, "\t%s, %s := c.QueryParam(%q), c.QueryParam(%q)\n\t_, _ = %s, %s\n", x, y, name, name+"b", x, y)
			st = append(st, stmtIntent{Form: "assign", Call: "QueryParam", Name: name, Type: "string"}, stmtIntent{Form: "assign", Call: "QueryParam", Name: name + "b", Type: "string"})
		}
	}
	if r.chance(1, 4) {
		x := v()
		fmt.Fprintf(&b, "\t%s := c.FormValue(\"fv\")\n\t_ = %s\n", x, x)
		st = append(st, stmtIntent{Form: "assign", Call: "FormValue", Name: "fv"})
		if r.bool() {
			y := v()
			fmt.Fprintf(&b, "\t%s := c.FormValue(\"fv2\")\n\t_ = %s\n", y, y)
			st = append(st, stmtIntent{Form: "assign", Call: "FormValue", Name: "fv2"})
		}
	}
	if r.chance(1, 5) {
		x := v()
		if varForm {
			fmt.Fprintf(&b, "\tvar %s, _ = c.FormFile(\"upload\")\n\t_ = %s\n", x, x)
		} else {
			fmt.Fprintf(&b, "\t%s, _ := c.FormFile(\"upload\")\n\t_ = %s\n", x, x)
		}
		st = append(st, stmtIntent{Form: "assign", Call: "FormFile", Name: "upload"})
	}
	if r.chance(1, 3) {
		p := pick(r, payloads)
		x := v()
		// the destination is any pointer expression: the address of a variable, a pointer variable, the address of a field
		switch r.intn(3) {
		case 0:
			fmt.Fprintf(&b, "\tvar %s %s\n\t_ = FormValueJSON(c, \"jsonfield\", &%s)\n", x, p.src, x)
		case 1:
			fmt.Fprintf(&b, "\t%s := new(%s)\n\t_ = FormValueJSON(c, \"jsonfield\", %s)\n", x, p.src, x)
		default:
			fmt.Fprintf(&b, "\tvar %s struct{ F %s }\n\t_ = FormValueJSON(c, \"jsonfield\", &%s.F)\n", x, p.src, x)
		}
		st = append(st, stmtIntent{Form: "assign", Call: "FormValueJSON", Name: "jsonfield", Type: p.str})
	}
	switch r.intn(6) {
	case 0:
		b.WriteString("\treturn nil\n")
		st = append(st, stmtIntent{Form: "return", Call: "nil"})
	case 1:
		x := v()
		fmt.Fprintf(&b, "\tvar %s []byte\n\treturn c.Blob(200, \"\", %s)\n", x, x)
		st = append(st, stmtIntent{Form: "return", Call: "Blob", Type: "[]byte"})
	case 2:
		fmt.Fprintf(&b, "\treturn c.JSON(200, Result{})\n")
		st = append(st, stmtIntent{Form: "return", Call: "JSON", Type: "example.com/org/api.Result"})
	case 3:
		p := pick(r, payloads)
		x := v()
		fmt.Fprintf(&b, "\tvar %s %s\n\treturn c.JSONPretty(200, %s, \" \")\n", x, p.src, x)
		st = append(st, stmtIntent{Form: "return", Call: "JSONPretty", Type: p.str})
	default:
		p := pick(r, payloads)
		x := v()
		fmt.Fprintf(&b, "\tvar %s %s\n\treturn c.JSON(200, %s)\n", x, p.src, x)
		st = append(st, stmtIntent{Form: "return", Call: "JSON", Type: p.str})
	}
	return b.String(), st
}

// ---- observation (child process) ----

type endpointObs struct {
	URL, Method, Name  string
	Input, Return      string // type strings ("" = none)
	IsBlob             bool
	Query              []qparam
	FormValues         []string
	File               string
	JSONName, JSONType string
}

type httpObs struct {
	LoadErr   string
	Outcome   string // ok | diag | crash
	Msg       string
	Endpoints []endpointObs
	Axios     genOut
}

func anTypeString(t analysis.Type) string {
	if t == nil {
		return ""
	}
	defer func() { recover() }()
	return types.TypeString(t.Type(), nil)
}

func observeHTTP(target, prefix string) *httpObs {
	res := &httpObs{}
	pkg, err := analysis.LoadSource(target)
	if err != nil {
		res.LoadErr = err.Error()
		return res
	}
	var eps []httpapi.Endpoint
	func() {
		defer func() {
			if r := recover(); r != nil {
				res.Outcome, res.Msg = panicClass(r)
			}
		}()
		eps = httpapi.ParseEcho(pkg, target, prefix)
		res.Outcome = "ok"
	}()
	if res.Outcome != "ok" {
		return res
	}
	for _, ep := range eps {
		o := endpointObs{URL: ep.Url, Method: ep.Method, Name: ep.Contract.Name, Input: anTypeString(ep.Contract.InputBody), Return: anTypeString(ep.Contract.Return),
			IsBlob: ep.Contract.IsReturnBlob, FormValues: ep.Contract.InputForm.ValueNames, File: ep.Contract.InputForm.File,
			JSONName: ep.Contract.InputForm.JSON.Name, JSONType: anTypeString(ep.Contract.InputForm.JSON.Type)}
		for _, q := range ep.Contract.InputQueryParams {
			o.Query = append(o.Query, qparam{q.Name, anTypeString(q.Type)})
		}
		res.Endpoints = append(res.Endpoints, o)
	}
	res.Axios = runGen(func() string { return typescript.GenerateAxios(eps) })
	return res
}

func observeHTTPModule(m *modSpec, prefix string) *httpObs {
	_, target := m.materialize()
	self, _ := os.Executable()
	cmd := exec.Command(self, "-out", os.TempDir(), "child-http")
	cmd.Env = append(os.Environ(), "GMV_TARGET="+target, "GMV_PREFIX="+prefix, "GMV_CHILD=1")
	out, err := cmd.Output()
	res := &httpObs{}
	if err != nil || json.Unmarshal(out, res) != nil {
		return &httpObs{Outcome: "crash", Msg: "child process failed: " + fmt.Sprint(err)}
	}
	return res
}

func coqIntent(in routeIntent) string {
	var st []string
	for _, s := range in.Stmts {
		st = append(st, fmt.Sprintf("{| st_form := %s; st_call := %s; st_name := %s; st_type := %s |}", coqStr(s.Form), coqStr(s.Call), coqStr(s.Name), coqStr(s.Type)))
	}
	return fmt.Sprintf("{| rg_verb := %s; rg_url := %s; rg_kind := %s; rg_name := %s; rg_body := %s |}", coqStr(in.Verb), coqStr(in.URL), coqStr(in.HandlerKind), coqStr(in.Name), coqList(st))
}

func coqEndpoint(o endpointObs) string {
	var qs []string
	for _, q := range o.Query {
		qs = append(qs, fmt.Sprintf("(%s, %s)", coqStr(q.Name), coqStr(q.Type)))
	}
	return fmt.Sprintf("{| ep_url := %s; ep_method := %s; ep_name := %s; ep_input := %s; ep_return := %s; ep_blob := %s; ep_query := %s; ep_form_values := %s; ep_file := %s; ep_json := (%s, %s) |}",
		coqStr(o.URL), coqStr(o.Method), coqStr(o.Name), coqStr(o.Input), coqStr(o.Return), coqBool(o.IsBlob), coqList(qs), coqStrList(o.FormValues), coqStr(o.File), coqStr(o.JSONName), coqStr(o.JSONType))
}

func runC13(e *env) {
	e.m.Rule = "seeded synthesised route files over a stand-in echo package: 3..10 registrations x 4 verbs x path expression forms (literal, local / package / imported constant, concatenations) x handler forms (method on pointer or value variable, function, imported function or method, literal) " +
		"x bodies made of random subsets/orders of Bind, QueryParam (plain, multi-assign), QueryParamBool, QueryParamInt64, generic QueryParamInt, FormValue, FormFile, FormValueJSON, JSON, JSONPretty, Blob, nil returns, ':=' and 'var =' forms, plus non-registrations (unknown verb, plain calls); " +
		"each file is parsed with five prefix filters; one evaluation = one (file, prefix) pair; non-trivial = at least 3 endpoints kept"
	e.m.Extra = map[string]interface{}{"mismatch_means": "property"}
	n := 12
	if e.thorough() {
		n = 150
	}
	type job struct {
		spec    *modSpec
		intents []routeIntent
		prefix  string
		varForm bool
	}
	var jobs []job
	for i := 0; i < n; i++ {
		vf := i%3 == 2
		m, in := synthRoutes(e.r, i, vf)
		// filters: none, a prefix ending with a slash that other URLs share up to the slash only, a plain prefix, the
		// bare slash (URLs built from a constant have no leading slash)
		for _, p := range []string{"", "/inner_const/", "/api", "/lit/", "/"} {
			jobs = append(jobs, job{m, in, p, vf})
		}
	}
	res := make([]*httpObs, len(jobs))
	var wg sync.WaitGroup
	sem := make(chan struct{}, 14)
	for i, j := range jobs {
		wg.Add(1)
		sem <- struct{}{}
		go func(i int, j job) {
			defer wg.Done()
			defer func() { <-sem }()
			res[i] = observeHTTPModule(j.spec, j.prefix)
		}(i, j)
	}
	wg.Wait()
	var cases []string
	var inputs []interface{}
	for i, j := range jobs {
		o := res[i]
		if o.LoadErr != "" {
			e.m.count("rejected_by_type_checker")
			e.m.Extra["last_rejected"] = j.spec.Name + ": " + o.LoadErr
			continue
		}
		e.m.Evaluations++
		e.m.count("parse_" + o.Outcome)
		e.m.count("prefix_" + j.prefix)
		obs := "HttpDiag"
		if o.Outcome == "crash" {
			obs = "HttpCrash"
			e.m.fail(oracleFailure{What: "ParseEcho dies with a runtime error: " + o.Msg, Input: j.spec})
		}
		if o.Outcome == "ok" {
			var eps []string
			for _, ep := range o.Endpoints {
				eps = append(eps, coqEndpoint(ep))
			}
			obs = "(HttpOk " + coqListNL(eps) + ")"
			if len(o.Endpoints) >= 3 {
				e.m.Nontrivial++
				e.m.sample(map[string]interface{}{"file": j.spec.Name, "prefix": j.prefix, "endpoints": o.Endpoints})
			}
		}
		var ins []string
		for _, in := range j.intents {
			ins = append(ins, coqIntent(in))
		}
		cls := ""
		if j.varForm {
			cls = "query-param-in-var-declaration"
		}
		cases = append(cases, fmt.Sprintf("{| c13_regs := %s;\n c13_prefix := %s;\n c13_obs := %s |}", coqListNL(ins), coqStr(j.prefix), obs))
		inputs = append(inputs, map[string]interface{}{"module": j.spec, "prefix": j.prefix, "observed": o.Endpoints, "outcome": o.Outcome, "msg": o.Msg, "class": cls})
		if len(cases) == 12 {
			e.writeCases(fmt.Sprintf("cases_C13_%d", len(e.m.CaseFiles)), "From Coq Require Import List String.\nFrom GM Require Import Base.Hex Model.Http Corr.Check_C13.\nImport ListNotations.\nLocal Open Scope string_scope.\n", cases, inputs)
			cases, inputs = nil, nil
		}
	}
	if len(cases) > 0 {
		e.writeCases(fmt.Sprintf("cases_C13_%d", len(e.m.CaseFiles)), "From Coq Require Import List String.\nFrom GM Require Import Base.Hex Model.Http Corr.Check_C13.\nImport ListNotations.\nLocal Open Scope string_scope.\n", cases, inputs)
	}
}
